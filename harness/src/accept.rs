//! Drivers of the acceptance-side properties: C04 (strict acceptance = grammar), C11 (re-encode),
//! C12 (type invariants of decoded packets), C13 (other family's CONNECT), C20 (documented errors).

use std::sync::Arc;

use mqtt_proto::{v3, v5, GenericPollPacket, GenericPollPacketState, TopicFilter, TopicName};
use serde_json::{json, Value as J};

use crate::codec::*;
use crate::fam::{Fam, V3, V5};
use crate::frontends::corrupt;
use crate::gen::{Budget, GenFam};
use crate::io::*;
use crate::model::*;
use crate::out::Out;
use crate::rng::Rng;
use crate::tokens::{catalogue, nonminimal_rl, spellings, tokenize};

/// `small`: only packets of at most 600 bytes (every malformation of a packet is parsed twice by the
/// specification; long user-property lists cost ~1 ms per property there)
fn gen_packets<F: GenFam>(rng: &mut Rng, b: &mut Budget, n: usize, small: bool) -> Vec<(F::Packet, Vec<u8>)> {
    let types = F::types();
    let mut v = Vec::new();
    for i in 0..n {
        let p = F::gen(rng, b, types[i % types.len()]);
        if let Some(e) = enc::<F>(&p).1 {
            if e.len() <= 600 || !small {
                v.push((p, e));
            }
        }
    }
    v
}

// ------------------------------------------------------------------------------------------------
// C20
pub fn record_mal(out: &mut Out, tier: &str, seed: u64) {
    let n = if tier == "thorough" { 6000 } else { 260 };
    let mut rng = Rng::new(seed ^ 0xC20);
    let mut b = Budget { big: 20, huge: 0 };
    fn run<F: GenFam>(out: &mut Out, rng: &mut Rng, b: &mut Budget, n: usize) {
        for (p, e) in gen_packets::<F>(rng, b, n, true) {
            if let Some(fr) = tokenize(F::NAME, &e) {
                for m in catalogue(&fr, rng) {
                    out.ev(json!({"ev": "Mal", "fam": F::NAME, "typ": F::type_name(&p), "m": m.m, "site": m.site,
                                  "bytes": jbytes(&m.bytes), "block": dec_block::<F>(&m.bytes),
                                  "async": dec_async::<F>(&m.bytes, usize::MAX), "poll": dec_poll::<F>(&m.bytes, usize::MAX),
                                  "async_1": dec_async::<F>(&m.bytes, 1),
                                  "poll_1": crate::frontends::dec_poll_pending::<F>(&m.bytes, 1)}));
                }
            } else {
                out.ev(json!({"ev": "Untokenizable", "fam": F::NAME, "bytes": jbytes(&e)}));
            }
        }
    }
    run::<V3>(out, &mut rng, &mut b, n);
    run::<V5>(out, &mut rng, &mut b, 2 * n);
    fn big<F: Fam>(out: &mut Out) {
        large_class_for(F::NAME, &mut |m, bytes, bad| {
            if bad {
                out.ev(json!({"ev": "Mal", "fam": F::NAME, "typ": "large-class", "m": m, "site": "large length class",
                              "bytes": jbytes(bytes), "block": dec_block::<F>(bytes),
                              "async": dec_async::<F>(bytes, usize::MAX), "poll": dec_poll::<F>(bytes, usize::MAX),
                              "async_1": dec_async::<F>(bytes, 4093),
                              "poll_1": crate::frontends::dec_poll_pending::<F>(bytes, 4093)}));
            }
        });
    }
    big::<V3>(out);
    big::<V5>(out);
}

// ------------------------------------------------------------------------------------------------
// C04
fn strict_event<F: Fam>(out: &mut Out, origin: &str, bytes: &[u8]) {
    out.ev(json!({"ev": "Strict", "fam": F::NAME, "origin": origin, "bytes": jbytes(bytes),
                  "poll": dec_poll::<F>(bytes, usize::MAX)}));
}

/// byte-level mutation that keeps "a complete frame": the body is edited, the header re-computed
fn mutate_reframed(rng: &mut Rng, frame: &[u8]) -> Vec<u8> {
    if frame.len() < 2 {
        return frame.to_vec();
    }
    let mut hdr = 1;
    while hdr < frame.len() && hdr < 5 && frame[hdr] & 0x80 != 0 {
        hdr += 1;
    }
    hdr += 1;
    let mut body = frame[hdr.min(frame.len())..].to_vec();
    let n = rng.range(1, 3);
    for _ in 0..n {
        if body.is_empty() {
            body.push(rng.byte());
            continue;
        }
        let i = rng.below(body.len() as u64) as usize;
        match rng.below(8) {
            0 | 1 => body[i] ^= 1 << rng.below(8),
            2 => body[i] = rng.byte(),
            3 => body[i] = *rng.pick(&[0u8, 1, 2, 3, 0x7F, 0x0B, 0x26, 0x24, 0x1F]),
            4 => {
                body.insert(i, rng.below(128) as u8);
            }
            5 => {
                body.remove(i);
            }
            6 => {
                body.truncate(i);
            }
            _ => {
                let x = rng.below(128) as u8;
                body.push(x);
            }
        }
    }
    let ctl = if rng.chance(1, 10) { rng.byte() } else { frame[0] };
    crate::topic::frame(ctl, &body)
}

/// Header::new_with for every control byte (type nibble / flag table) and a few remaining lengths
fn header_table<F: Fam>(out: &mut Out) {
    for hd in 0..=255u8 {
        let mut rows = Vec::new();
        for rl in [0u32, 2, 127, 128, 268435455] {
            let r = guarded(|| F::header_new_with(hd, rl));
            rows.push(match r {
                Err(m) => jpanic(&m),
                Ok(Ok(h)) => jok(F::header_json(&h)),
                Ok(Err(e)) => F::err_json(&e),
            });
        }
        out.ev(json!({"ev": "HeaderRow", "fam": F::NAME, "hd": hd, "rls": [0, 2, 127, 128, 268435455], "rows": rows}));
    }
}

/// the public from_u8 constructors of every wire-numbered enum, over all 256 bytes
fn code_tables(out: &mut Out) {
    fn table(out: &mut Out, name: &str, f: &dyn Fn(u8) -> Option<String>) {
        let rows: Vec<J> = (0..=255u8)
            .map(|b| match guarded(|| f(b)) {
                Ok(Some(n)) => json!([b, n]),
                Ok(None) => json!([b, ""]),
                Err(_) => json!([b, "panic"]),
            })
            .collect();
        out.ev(json!({"ev": "CodeTable", "enum": name, "rows": rows}));
    }
    table(out, "v3.ConnectReturnCode", &|b| v3::ConnectReturnCode::from_u8(b).ok().map(|c| format!("{c:?}")));
    table(out, "v3.SubscribeReturnCode", &|b| v3::SubscribeReturnCode::from_u8(b).ok().map(|c| format!("{c:?}")));
    table(out, "Connack", &|b| v5::ConnectReasonCode::from_u8(b).map(|c| format!("{c:?}")));
    table(out, "Puback", &|b| v5::PubackReasonCode::from_u8(b).map(|c| format!("{c:?}")));
    table(out, "Pubrec", &|b| v5::PubrecReasonCode::from_u8(b).map(|c| format!("{c:?}")));
    table(out, "Pubrel", &|b| v5::PubrelReasonCode::from_u8(b).map(|c| format!("{c:?}")));
    table(out, "Pubcomp", &|b| v5::PubcompReasonCode::from_u8(b).map(|c| format!("{c:?}")));
    table(out, "Suback", &|b| v5::SubscribeReasonCode::from_u8(b).map(|c| format!("{c:?}")));
    table(out, "Unsuback", &|b| v5::UnsubscribeReasonCode::from_u8(b).map(|c| format!("{c:?}")));
    table(out, "Disconnect", &|b| v5::DisconnectReasonCode::from_u8(b).map(|c| format!("{c:?}")));
    table(out, "Auth", &|b| v5::AuthReasonCode::from_u8(b).map(|c| format!("{c:?}")));
    table(out, "RetainHandling", &|b| v5::RetainHandling::from_u8(b).map(|c| format!("{c:?}")));
    table(out, "PropertyId", &|b| v5::PropertyId::from_u8(b).ok().map(|c| format!("{c:?}")));
    table(out, "QoS", &|b| mqtt_proto::QoS::from_u8(b).ok().map(|c| format!("{c:?}")));
}

pub fn record_strict(out: &mut Out, tier: &str, seed: u64) {
    header_table::<V3>(out);
    header_table::<V5>(out);
    code_tables(out);
    let n = if tier == "thorough" { 9000 } else { 330 };
    let mut rng = Rng::new(seed ^ 0xC04);
    let mut b = Budget { big: 20, huge: 0 };
    fn run<F: GenFam>(out: &mut Out, rng: &mut Rng, b: &mut Budget, n: usize) {
        for (_p, e) in gen_packets::<F>(rng, b, n, true) {
            strict_event::<F>(out, "valid", &e);
            if let Some(fr) = tokenize(F::NAME, &e) {
                for (_name, s) in spellings(&fr) {
                    strict_event::<F>(out, "spelling", &s);
                }
                let cat = catalogue(&fr, rng);
                // the whole catalogue at every site of the packet (as C20 does): the verdict on each edited frame
                for m in &cat {
                    strict_event::<F>(out, m.m, &m.bytes);
                }
            }
            for _ in 0..6 {
                let m = mutate_reframed(rng, &e);
                strict_event::<F>(out, "mutation", &m);
            }
        }
    }
    run::<V3>(out, &mut rng, &mut b, n);
    run::<V5>(out, &mut rng, &mut b, 2 * n);
    large_class_for("v3", &mut |m, bytes, _bad| strict_event::<V3>(out, m, bytes));
    large_class_for("v5", &mut |m, bytes, _bad| strict_event::<V5>(out, m, bytes));
}

// ------------------------------------------------------------------------------------------------
// C11 / C12: whatever any front-end accepts
fn texts_of<F: Fam>(p: &J) -> Vec<J> {
    // every text-typed field of the abstract packet with its role: "text" | "name" | "filter"
    let mut v = Vec::new();
    fn props(v: &mut Vec<J>, pr: &J) {
        for k in ["ct", "aci", "am", "ri", "sr", "rs"] {
            if let Some(a) = pr.get(k).and_then(|x| x.get(0)) {
                v.push(json!(["text", a]));
            }
        }
        if let Some(a) = pr.get("rt").and_then(|x| x.get(0)) {
            v.push(json!(["name", a]));
        }
        if let Some(us) = pr.get("user").and_then(|x| x.as_array()) {
            for u in us {
                v.push(json!(["text", u[0]]));
                v.push(json!(["text", u[1]]));
            }
        }
    }
    if let Some(pr) = p.get("props") {
        props(&mut v, pr);
    }
    match p["t"].as_str().unwrap_or("") {
        "Connect" => {
            v.push(json!(["text", p["client_id"]]));
            if let Some(u) = p["username"].get(0) {
                v.push(json!(["text", u]));
            }
            if let Some(w) = p["will"].get(0) {
                v.push(json!(["name", w["topic"]]));
                if let Some(pr) = w.get("props") {
                    props(&mut v, pr);
                }
            }
        }
        "Publish" => v.push(json!(["name", p["topic"]])),
        "Subscribe" => {
            for t in p["topics"].as_array().unwrap_or(&vec![]) {
                v.push(json!(["filter", t["filter"]]));
            }
        }
        "Unsubscribe" => {
            for t in p["topics"].as_array().unwrap_or(&vec![]) {
                v.push(json!(["filter", t]));
            }
        }
        _ => {}
    }
    let _ = F::NAME;
    v
}

/// the library's own predicates and accessors on every topic name / filter of a decoded packet
fn lib_checks(texts: &[J]) -> J {
    let mut rows = Vec::new();
    for t in texts {
        let role = t[0].as_str().unwrap_or("");
        let bytes = as_bytes(&t[1]).unwrap_or_default();
        let r = guarded(|| {
            // the decoder built these strings; going through from_utf8_lossy would hide invalid UTF-8, so the
            // predicates are run only when the bytes are UTF-8 (the spec checks UTF-8 itself on the raw bytes)
            match std::str::from_utf8(&bytes) {
                Err(_) => json!({"utf8": false}),
                Ok(s) => match role {
                    "name" => json!({"utf8": true, "invalid": TopicName::is_invalid(s)}),
                    "filter" => {
                        let (inv, _sep) = TopicFilter::is_invalid(s);
                        let mut j = json!({"utf8": true, "invalid": inv});
                        if let Ok(f) = TopicFilter::try_from(s.to_string()) {
                            let acc = guarded(|| {
                                let sh = f.is_shared();
                                let g = f.shared_group_name().map(|x| x.to_string());
                                let fl = f.shared_filter().map(|x| x.to_string());
                                let info = f.shared_info().map(|(a, b)| (a.to_string(), b.to_string()));
                                let joined = match (&g, &fl) {
                                    (Some(g), Some(fl)) => format!("$share/{g}/{fl}") == s,
                                    (None, None) => true,
                                    _ => false,
                                };
                                let info_ok = match (&info, &g, &fl) {
                                    (Some((a, b)), Some(g), Some(fl)) => a == g && b == fl,
                                    (None, None, None) => true,
                                    _ => false,
                                };
                                json!({"shared": sh, "split_rejoins": joined && info_ok && (sh == g.is_some())})
                            });
                            j["acc"] = acc.unwrap_or_else(|m| json!({"panic": m}));
                        }
                        j
                    }
                    _ => json!({"utf8": true}),
                },
            }
        });
        rows.push(match r {
            Ok(j) => j,
            Err(m) => json!({"panic": m}),
        });
    }
    J::Array(rows)
}

fn accepted_events<F: Fam>(out: &mut Out, origin: &str, bytes: &[u8], want_reenc: bool, want_decoded: bool) {
    // (the async decoder also over a transport that delivers three bytes per read: a field then arrives in pieces)
    let fronts: [(&str, J); 4] = [
        ("block", dec_block::<F>(bytes)),
        ("async", dec_async::<F>(bytes, usize::MAX)),
        ("poll", dec_poll::<F>(bytes, usize::MAX)),
        ("async3", dec_async::<F>(bytes, 3)),
    ];
    let async_pos = fronts[1].1["pos"].as_u64();
    for (front, r) in &fronts {
        if r["k"] != "ok" {
            continue;
        }
        let pj = &r["v"];
        let consumed = match *front {
            "poll" => r["total"].as_u64(),
            "async3" => r["pos"].as_u64(),
            _ => async_pos,
        };
        if want_decoded {
            let texts = texts_of::<F>(pj);
            let checks = lib_checks(&texts);
            out.ev(json!({"ev": "Decoded", "fam": F::NAME, "origin": origin, "front": front, "bytes": jbytes(bytes),
                          "packet": pj, "texts": texts, "checks": checks}));
        }
        if want_reenc {
            let mut ev = json!({"ev": "Reenc", "fam": F::NAME, "origin": origin, "front": front, "bytes": jbytes(bytes),
                                "consumed": consumed, "packet": pj});
            match F::from_json(pj) {
                Err(m) => ev["reenc"] = json!({"k": "unconstructible", "why": m}),
                Ok(p) => {
                    let (e, rb) = enc::<F>(&p);
                    ev["reenc"] = e;
                    if let Some(rb) = rb {
                        // re-encoding for forwarding goes through the async encoder into a socket: vectored writes, a
                        // first write that stops in the middle of the packet, a not-ready answer
                        let a = crate::codec::enc_async_on::<F>(&p, vec![crate::io::WStep::Accept(rb.len() / 2 + 1), crate::io::WStep::Pending],
                                                                crate::io::WStep::Accept(usize::MAX), None, true, None);
                        ev["reenc_async"] = json!({"res": a["res"], "same": a["sink"] == jbytes(&rb)});
                        ev["redec_block"] = dec_block::<F>(&rb);
                        ev["redec_async"] = dec_async::<F>(&rb, usize::MAX);
                        ev["redec_poll"] = dec_poll::<F>(&rb, usize::MAX);
                    }
                }
            }
            out.ev(ev);
        }
    }
}

pub fn spec_bytes_events<F: Fam>(out: &mut Out, mode: &str, bytes: &[u8]) {
    match mode {
        "reenc" => accepted_events::<F>(out, "spec-encoding", bytes, true, false),
        "decoded" => accepted_events::<F>(out, "spec-encoding", bytes, false, true),
        _ => strict_event::<F>(out, "spec-encoding", bytes),
    }
}

fn accept_inputs<F: GenFam>(rng: &mut Rng, b: &mut Budget, n: usize, f: &mut dyn FnMut(&str, &[u8])) {
    for (_p, e) in gen_packets::<F>(rng, b, n, false) {
        f("valid", &e);
        let mut ext = e.clone();
        ext.extend(rng.bytes_range(1, 5));
        f("valid+suffix", &ext);
        if let Some(fr) = tokenize(F::NAME, &e) {
            for (_n, s) in spellings(&fr) {
                f("spelling", &s);
            }
            f("nonminimal-length", &nonminimal_rl(&fr));
            for s in crate::tokens::nonminimal_proplen(&fr) {
                f("nonminimal-proplen", &s);
            }
            if e.len() <= 2000 {
                let cat = catalogue(&fr, rng);
                for m in cat.iter().filter(|m| matches!(m.m, "bad_utf8" | "wild_name" | "wild_resp" | "bad_filter" | "pid0" | "rl_long" | "rl_short" | "payload_fmt")) {
                    f(m.m, &m.bytes);
                }
                for _ in 0..6.min(cat.len()) {
                    let m = rng.pick(&cat);
                    f(m.m, &m.bytes);
                }
            }
        }
        for _ in 0..4 {
            f("corrupt", &corrupt(rng, &e));
        }
    }
}

// ------------------------------------------------------------------------------------------------
// Malformations (and their valid neighbours) in LENGTH CLASSES the catalogue over small packets never reaches:
// a validator that switches strategy by size (block-wise UTF-8 check, a separate scan for long names, a u16 sum)
// goes wrong only there.  Frames are spelled by the harness; (family, label m, frame, malformed?)
pub fn large_class_frames() -> Vec<(&'static str, &'static str, Vec<u8>, bool)> {
    use crate::topic::{field, frame, varint};
    let mut out: Vec<(&'static str, &'static str, Vec<u8>, bool)> = Vec::new();
    // (1) payloads flagged as UTF-8 (PFI = 1), larger than 32 KiB / 64 KiB
    let mut payloads: Vec<(Vec<u8>, bool)> = Vec::new();
    for n in [32771usize, 40000, 65539, 70000] {
        payloads.push((vec![b'a'; n], true));
        for (ch, at) in [("é", 32767usize), ("€", 32767), ("😀", 32766), ("é", 65535), ("€", 65534), ("😀", 65533), ("€", 32768 - 3), ("é", 32768)] {
            if at + ch.len() <= n {
                let mut p = vec![b'a'; n];
                p[at..at + ch.len()].copy_from_slice(ch.as_bytes()); // a character across (or exactly at) a block boundary
                payloads.push((p, true));
            }
        }
        let mut p = vec![b'a'; n];
        p[n - 1] = 0xFF; // the very last byte
        payloads.push((p, false));
        let mut p = vec![b'a'; n];
        p[n - 1] = 0xC3; // a multi-byte character cut by the end
        payloads.push((p, false));
        let mut p = vec![b'a'; n];
        p[(n / 32768) * 32768] = 0x80; // first byte after the last full 32 KiB block
        payloads.push((p, false));
        let mut p = vec![b'a'; n];
        p[32768] = 0xFF;
        payloads.push((p, false));
        let mut p = vec![b'a'; n];
        p[0] = 0xFF;
        payloads.push((p, false));
        let mut p = vec![b'a'; n];
        p[32767] = 0xE2; // "€" cut after its first byte, at a block boundary
        payloads.push((p, false));
    }
    // payloads that consist of ONE repeated byte that is not text on its own (continuation bytes, lead bytes without
    // continuation, 0xFF) or of a repeated multi-byte character, in every size class: a block-wise validator that looks
    // for a character boundary finds none
    for n in [1usize, 5, 4097, 32769, 40000, 65537] {
        for b in [0x80u8, 0xBF, 0xC3, 0xE2, 0xF0, 0xFF] {
            payloads.push((vec![b; n], false));
        }
        for ch in ["é", "€", "😀"] {
            let mut p = ch.repeat(n / ch.len() + 1).into_bytes();
            p.truncate((n / ch.len()) * ch.len());
            if !p.is_empty() {
                payloads.push((p, true));
            }
        }
    }
    for (p, ok) in &payloads {
        let mut body = field(b"t");
        body.extend_from_slice(&[2, 0x01, 0x01]);
        body.extend_from_slice(p);
        out.push(("v5", "payload_fmt", frame(0x30, &body), !*ok));
        if p.len() <= 65535 {
            // the same payload as a will payload
            let mut body = vec![0, 4, b'M', b'Q', b'T', b'T', 5, 0x06, 0, 10, 0];
            body.extend(field(b"c"));
            body.extend_from_slice(&[2, 0x01, 0x01]);
            body.extend(field(b"w"));
            body.extend(field(p));
            out.push(("v5", "payload_fmt", frame(0x10, &body), !*ok));
        }
    }
    // (2) long text fields with one bad spot, at every kind of site
    for n in [255usize, 256, 257, 1000, 4097, 65535] {
        let mk = |pos: usize, bad: &[u8]| {
            let mut t = vec![b'a'; n];
            for (k, x) in bad.iter().enumerate() {
                if pos + k < n {
                    t[pos + k] = *x;
                }
            }
            t
        };
        let spots = [0usize, n / 2, n - 1];
        for pos in spots {
            for (bad, kind) in [(&[0u8][..], "nul"), (&[b'+'][..], "plus"), (&[b'#'][..], "hash"), (&[0xFF][..], "utf8"), (&[0xC3][..], "cut")] {
                if kind == "cut" && pos != n - 1 {
                    continue;
                }
                let t = mk(pos, bad);
                let m_name = if kind == "utf8" || kind == "cut" { "bad_utf8" } else { "wild_name" };
                // v3 / v5 PUBLISH topic
                let mut body = field(&t);
                body.extend_from_slice(b"pl");
                out.push(("v3", m_name, frame(0x30, &body), true));
                let mut body = field(&t);
                body.push(0);
                body.extend_from_slice(b"pl");
                out.push(("v5", m_name, frame(0x30, &body), true));
                // will topic, both families
                let mut body = vec![0, 4, b'M', b'Q', b'T', b'T', 4, 0x06, 0, 10];
                body.extend(field(b"c"));
                body.extend(field(&t));
                body.extend(field(b"m"));
                out.push(("v3", m_name, frame(0x10, &body), true));
                let mut body = vec![0, 4, b'M', b'Q', b'T', b'T', 5, 0x06, 0, 10, 0];
                body.extend(field(b"c"));
                body.push(0);
                body.extend(field(&t));
                body.extend(field(b"m"));
                out.push(("v5", m_name, frame(0x10, &body), true));
                // v5 response topic
                let mut props = vec![0x08];
                props.extend(field(&t));
                let mut body = field(b"t");
                body.extend(varint(props.len()));
                body.extend(&props);
                out.push(("v5", if m_name == "wild_name" { "wild_resp" } else { "bad_utf8" }, frame(0x30, &body), true));
                // SUBSCRIBE filter ('+' / '#' inside a level are invalid filters too), both families
                let mut body = vec![0, 7];
                body.extend(field(&t));
                body.push(1);
                let bad_filter = !(kind == "hash" && pos == n - 1 && false);
                out.push(("v3", if m_name == "wild_name" { "bad_filter" } else { "bad_utf8" }, frame(0x82, &body), bad_filter));
                let mut body = vec![0, 7, 0];
                body.extend(field(&t));
                body.push(1);
                out.push(("v5", if m_name == "wild_name" { "bad_filter" } else { "bad_utf8" }, frame(0x82, &body), bad_filter));
                // plain strings (client id; v5 reason string): only UTF-8 matters (NUL is carried through: leniency L8)
                if m_name == "bad_utf8" {
                    let mut body = vec![0, 4, b'M', b'Q', b'T', b'T', 4, 0x02, 0, 10];
                    body.extend(field(&t));
                    out.push(("v3", "bad_utf8", frame(0x10, &body), true));
                    let mut props = vec![0x1F];
                    props.extend(field(&t));
                    let mut body = vec![0, 7, 0x10];
                    body.extend(varint(props.len()));
                    body.extend(&props);
                    out.push(("v5", "bad_utf8", frame(0x40, &body), true));
                }
            }
        }
        // the valid neighbour: the same length, nothing wrong
        let t = vec![b'a'; n];
        let mut body = field(&t);
        body.extend_from_slice(b"pl");
        out.push(("v3", "valid", frame(0x30, &body), false));
        let mut body = vec![0, 7, 0];
        body.extend(field(&t));
        body.push(1);
        out.push(("v5", "valid", frame(0x82, &body), false));
    }
    // (3) two length-prefixed fields whose lengths add up past 65,535 (each legal on its own)
    for (a, b2) in [(40000usize, 30000usize), (65535, 65535), (65535, 1), (1, 65535), (32768, 32768)] {
        let mut up = vec![0x26];
        up.extend(field(&vec![b'k'; a]));
        up.extend(field(&vec![b'v'; b2]));
        // v5 UNSUBSCRIBE, PUBLISH, DISCONNECT, CONNECT will properties
        let mut body = vec![0, 7];
        body.extend(varint(up.len()));
        body.extend(&up);
        body.extend(field(b"a/b"));
        out.push(("v5", "valid", frame(0xA2, &body), false));
        let mut body = field(b"t");
        body.extend(varint(up.len()));
        body.extend(&up);
        body.extend_from_slice(b"pl");
        out.push(("v5", "valid", frame(0x30, &body), false));
        let mut body = vec![0x00];
        body.extend(varint(up.len()));
        body.extend(&up);
        out.push(("v5", "valid", frame(0xE0, &body), false));
        let mut body = vec![0, 4, b'M', b'Q', b'T', b'T', 5, 0x06, 0, 10, 0];
        body.extend(field(b"c"));
        body.extend(varint(up.len()));
        body.extend(&up);
        body.extend(field(b"w"));
        body.extend(field(b"m"));
        out.push(("v5", "valid", frame(0x10, &body), false));
        // v3 CONNECT: will topic + will message, user name + password
        let mut body = vec![0, 4, b'M', b'Q', b'T', b'T', 4, 0xC6, 0, 10];
        body.extend(field(b"c"));
        body.extend(field(&vec![b't'; a]));
        body.extend(field(&vec![b'm'; b2]));
        body.extend(field(&vec![b'u'; b2]));
        body.extend(field(&vec![b'p'; a]));
        out.push(("v3", "valid", frame(0x10, &body), false));
    }
    out
}

/// Valid frames spelled by the harness (NOT by the library's encoder: a decoder that fails on a value its own encoder
/// also refuses would otherwise never be shown that value) with the extreme value of every numeric field
pub fn extreme_value_frames() -> Vec<(&'static str, Vec<u8>)> {
    use crate::topic::{field, frame, varint};
    let mut out: Vec<(&'static str, Vec<u8>)> = Vec::new();
    let vmax: [u8; 4] = [0xFF, 0xFF, 0xFF, 0x7F]; // 268,435,455
    for sid in [&vmax[..], &[0x80, 0x80, 0x80, 0x01], &[0xFF, 0xFF, 0x7F], &[0x7F], &[0x01]] {
        // v5 PUBLISH: subscription identifier, topic alias, message expiry, QoS 2 with pid 65535
        let mut props = vec![0x0B];
        props.extend_from_slice(sid);
        props.extend_from_slice(&[0x23, 0xFF, 0xFF, 0x02, 0xFF, 0xFF, 0xFF, 0xFF]);
        let mut body = field(b"t");
        body.extend_from_slice(&[0xFF, 0xFF]);
        body.extend(varint(props.len()));
        body.extend(&props);
        body.extend_from_slice(b"pl");
        out.push(("v5", frame(0x3D, &body)));
        // v5 SUBSCRIBE: subscription identifier, pid 65535, every option bit that may be set
        let mut props = vec![0x0B];
        props.extend_from_slice(sid);
        let mut body = vec![0xFF, 0xFF];
        body.extend(varint(props.len()));
        body.extend(&props);
        body.extend(field(b"$share/g/#"));
        body.push(0x2E);
        out.push(("v5", frame(0x82, &body)));
    }
    // v5 CONNECT: every numeric property at its maximum, keep alive 65535
    let props: Vec<u8> = vec![0x11, 0xFF, 0xFF, 0xFF, 0xFF, 0x21, 0xFF, 0xFF, 0x27, 0xFF, 0xFF, 0xFF, 0xFF, 0x22, 0xFF, 0xFF, 0x19, 0x01, 0x17, 0x01];
    let wprops: Vec<u8> = vec![0x18, 0xFF, 0xFF, 0xFF, 0xFF, 0x01, 0x01, 0x02, 0xFF, 0xFF, 0xFF, 0xFF];
    let mut body = vec![0, 4, b'M', b'Q', b'T', b'T', 5, 0xF6, 0xFF, 0xFF];
    body.extend(varint(props.len()));
    body.extend(&props);
    body.extend(field(b""));
    body.extend(varint(wprops.len()));
    body.extend(&wprops);
    body.extend(field(b"w"));
    body.extend(field(b"m"));
    body.extend(field(b"u"));
    body.extend(field(b"p"));
    out.push(("v5", frame(0x10, &body)));
    // v5 CONNACK: numeric properties at their maxima (Maximum QoS 1), highest reason code
    let props: Vec<u8> = vec![0x11, 0xFF, 0xFF, 0xFF, 0xFF, 0x21, 0xFF, 0xFF, 0x24, 0x01, 0x25, 0x01, 0x27, 0xFF, 0xFF, 0xFF, 0xFF, 0x22, 0xFF, 0xFF,
                              0x28, 0x01, 0x29, 0x01, 0x2A, 0x01, 0x13, 0xFF, 0xFF];
    let mut body = vec![0x01, 0x9F];
    body.extend(varint(props.len()));
    body.extend(&props);
    out.push(("v5", frame(0x20, &body)));
    // v5 DISCONNECT with session expiry maximum; acks with pid 65535
    out.push(("v5", frame(0xE0, &[0xA2, 0x05, 0x11, 0xFF, 0xFF, 0xFF, 0xFF])));
    for ctl in [0x40u8, 0x50, 0x62, 0x70] {
        out.push(("v5", frame(ctl, &[0xFF, 0xFF, if ctl < 0x60 { 0x10 } else { 0x92 }, 0x00])));
        out.push(("v3", frame(ctl, &[0xFF, 0xFF])));
    }
    // v3: keep alive / pid maxima, SUBACK 0x80
    let mut body = vec![0, 6, b'M', b'Q', b'I', b's', b'd', b'p', 3, 0xF6, 0xFF, 0xFF];
    body.extend(field(b""));
    body.extend(field(b"w"));
    body.extend(field(b"m"));
    body.extend(field(b"u"));
    body.extend(field(b"p"));
    out.push(("v3", frame(0x10, &body)));
    out.push(("v3", frame(0x90, &[0xFF, 0xFF, 0x80, 0x02, 0x00])));
    let mut body = field(b"t");
    body.extend_from_slice(&[0xFF, 0xFF]);
    out.push(("v3", frame(0x3D, &body)));
    // every length 0..=300 of a client id (both v3 protocols, v5) and of a user property's name + value, every SUBACK
    // list length 0..=40 -- the encoder-side sweeps of wire.rs, as INPUT frames
    for n in 0..=300usize {
        let mut body = vec![0, 6, b'M', b'Q', b'I', b's', b'd', b'p', 3, 0x02, 0, 60];
        body.extend(field(&vec![b'i'; n]));
        out.push(("v3", frame(0x10, &body)));
        let mut body = vec![0, 4, b'M', b'Q', b'T', b'T', 4, 0x02, 0, 60];
        body.extend(field(&vec![b'i'; n]));
        out.push(("v3", frame(0x10, &body)));
        let mut body = vec![0, 4, b'M', b'Q', b'T', b'T', 5, 0x02, 0, 60, 0];
        body.extend(field(&vec![b'i'; n]));
        out.push(("v5", frame(0x10, &body)));
        let mut up = vec![0x26];
        up.extend(field(&vec![b'n'; n / 2]));
        up.extend(field(&vec![b'v'; n - n / 2]));
        let mut body = field(b"t");
        body.extend(varint(up.len()));
        body.extend(&up);
        body.push(b'p');
        out.push(("v5", frame(0x30, &body)));
    }
    for n in 0..=40usize {
        let mut body = vec![0, 7, 0];
        body.extend((0..n).map(|i| if i % 5 == 4 { 0x87u8 } else { 0x02 }));
        out.push(("v5", frame(0x90, &body)));
        let mut body = vec![0, 7];
        body.extend((0..n).map(|i| if i % 5 == 4 { 0x80u8 } else { 0x01 }));
        out.push(("v3", frame(0x90, &body)));
    }
    out
}

/// feed the large-class frames of one family to `f(origin, bytes, malformed)`
/// frames that combine a leniency of the decoders with a validation that runs over the following bytes, and shared
/// filters whose share name is so long that the cached separator index needs 8, 15 or 16 bits
pub fn leniency_frames() -> Vec<(&'static str, &'static str, Vec<u8>)> {
    use crate::topic::{field, frame, varint};
    let mut out: Vec<(&'static str, &'static str, Vec<u8>)> = Vec::new();
    // v5 PUBLISH, Payload Format Indicator = 1, a NON-MINIMAL property length, and a last property whose final byte
    // cannot start a UTF-8 string (binary correlation data, a multi-byte content type, a topic alias)
    for last in [vec![0x09u8, 0, 1, 0xFF], vec![0x03, 0, 2, 0xC3, 0xA9], vec![0x23, 0x12, 0x80], vec![0x09, 0, 2, 0x41, 0xBF]] {
        for payload in [&b"hi"[..], &[b'h', 0xC3, 0xA9, b'l', b'l', b'o'][..], &b""[..]] {
            let mut props = vec![0x01u8, 0x01];
            props.extend(&last);
            for pad in [false, true] {
                let mut body = field(b"t");
                let mut l = varint(props.len());
                if pad {
                    l[0] |= 0x80;
                    l.push(0);
                }
                body.extend(l);
                body.extend(&props);
                body.extend_from_slice(payload);
                out.push(("v5", "nonminimal-proplen", frame(0x30, &body)));
            }
        }
    }
    // SUBSCRIBE / UNSUBSCRIBE with `$share/<name>/t` where the share name has 118..124, 246..252, 32 755..32 770 and
    // 65 524 bytes (separator index around 2^7, 2^8, 2^15 and just below 2^16)
    let lens: Vec<usize> = (118..=124).chain(246..=252).chain(32755..=32770).chain([65524usize, 65525]).collect();
    for n in lens {
        let filt = format!("$share/{}/t", "g".repeat(n));
        if filt.len() > 65535 {
            continue;
        }
        let mut b3 = vec![0u8, 7];
        b3.extend(field(filt.as_bytes()));
        b3.push(1);
        out.push(("v3", "valid", frame(0x82, &b3)));
        let mut b5 = vec![0u8, 7, 0];
        b5.extend(field(filt.as_bytes()));
        b5.push(1);
        out.push(("v5", "valid", frame(0x82, &b5)));
        if n % 3 == 0 {
            let mut u5 = vec![0u8, 7, 0];
            u5.extend(field(filt.as_bytes()));
            out.push(("v5", "valid", frame(0xA2, &u5)));
        }
    }
    out
}

pub fn large_class_for(fam: &str, f: &mut dyn FnMut(&str, &[u8], bool)) {
    for (fm, m, bytes) in leniency_frames() {
        if fm == fam {
            f(m, &bytes, false);
        }
    }
    for (fm, m, bytes, bad) in large_class_frames() {
        if fm == fam {
            f(m, &bytes, bad);
        }
    }
    for (fm, bytes) in extreme_value_frames() {
        if fm == fam {
            f("valid", &bytes, false);
        }
    }
}

pub fn record_reenc(out: &mut Out, tier: &str, seed: u64) {
    crate::wire::attempt_oversized();
    crate::wire::big_shapes(out, tier, if cfg!(debug_assertions) { "debug" } else { "release" });
    let n = if tier == "thorough" { 8000 } else { 350 };
    let mut rng = Rng::new(seed ^ 0xC11);
    let mut b = Budget { big: 40, huge: if tier == "thorough" { 10 } else { 1 } };
    accept_inputs::<V3>(&mut rng, &mut b, n, &mut |o, bytes| accepted_events::<V3>(out, o, bytes, true, false));
    let mut rng2 = Rng::new(seed ^ 0xC115);
    accept_inputs::<V5>(&mut rng2, &mut b, 2 * n, &mut |o, bytes| accepted_events::<V5>(out, o, bytes, true, false));
    large_class_for("v3", &mut |o, bytes, _bad| accepted_events::<V3>(out, o, bytes, true, false));
    large_class_for("v5", &mut |o, bytes, _bad| accepted_events::<V5>(out, o, bytes, true, false));
    // lenient framing at the width boundary of the length field, deterministically: a self-delimiting body that overruns
    // (and one that falls short of) the declared remaining length, where the true length needs another width
    for (declared, idlen) in [(12usize, 200usize), (12, 100), (127, 200), (300, 20), (20000, 20), (12, 17000)] {
        let mut f = vec![0x10u8];
        f.extend(crate::topic::varint(declared));
        f.extend_from_slice(&[0, 4, b'M', b'Q', b'T', b'T', 4, 2, 0, 10]);
        f.extend(crate::topic::field(&vec![b'c'; idlen]));
        accepted_events::<V3>(out, "lenient_framing", &f, true, false);
        let mut g = vec![0x20u8];
        g.extend(crate::topic::varint(declared));
        g.extend_from_slice(&[1, 0x9C]);
        let mut props = vec![0x1C];
        props.extend(crate::topic::field(&vec![b's'; idlen]));
        g.extend(crate::topic::varint(props.len()));
        g.extend(props);
        accepted_events::<V5>(out, "lenient_framing", &g, true, false);
    }
}

pub fn record_decoded(out: &mut Out, tier: &str, seed: u64) {
    let n = if tier == "thorough" { 8000 } else { 350 };
    let mut rng = Rng::new(seed ^ 0xC12);
    let mut b = Budget { big: 40, huge: if tier == "thorough" { 10 } else { 1 } };
    accept_inputs::<V3>(&mut rng, &mut b, n, &mut |o, bytes| accepted_events::<V3>(out, o, bytes, false, true));
    let mut rng2 = Rng::new(seed ^ 0xC125);
    accept_inputs::<V5>(&mut rng2, &mut b, 2 * n, &mut |o, bytes| accepted_events::<V5>(out, o, bytes, false, true));
    large_class_for("v3", &mut |o, bytes, _bad| accepted_events::<V3>(out, o, bytes, false, true));
    large_class_for("v5", &mut |o, bytes, _bad| accepted_events::<V5>(out, o, bytes, false, true));
}

// ------------------------------------------------------------------------------------------------
// C13: a CONNECT of one family presented to the other family's decoders
fn cross_front<F: Fam>(bytes: &[u8], front: &str) -> (J, usize) {
    match front {
        "async" => {
            let r = dec_async::<F>(bytes, 1);
            let pos = r["pos"].as_u64().unwrap_or(0) as usize;
            (r, pos)
        }
        // a transport that hands over as much as it is asked for (a decoder that reads ahead shows here, not over
        // one-byte reads)
        "async-whole" => {
            let r = dec_async::<F>(bytes, usize::MAX);
            let pos = r["pos"].as_u64().unwrap_or(0) as usize;
            (r, pos)
        }
        "poll" => {
            let r = dec_poll::<F>(bytes, usize::MAX);
            let pos = r["pos"].as_u64().unwrap_or(0) as usize;
            (r, pos)
        }
        _ => (dec_block::<F>(bytes), 0),
    }
}

/// resume with the matching family's known-protocol entry point on the bytes after protocol name + level
fn resume_native(native: &str, proto: &str, frame: &[u8], after: usize) -> J {
    let r = guarded(|| -> Result<J, String> {
        let mut rest: &[u8] = &frame[after..];
        let pv = proto_of(proto).map_err(|e| e)?;
        if native == "v5" {
            let mut hd = 1usize;
            while frame[hd] & 0x80 != 0 {
                hd += 1;
            }
            let hdr = v5::Header::decode(frame).map_err(|e| format!("{e:?}"))?;
            let _ = hd;
            match futures_lite::future::block_on(v5::Connect::decode_with_protocol(&mut rest, hdr, pv)) {
                Ok(c) => Ok(jok(v5_to_json(&v5::Packet::Connect(c)))),
                Err(e) => Ok(err5_to_json(&e)),
            }
        } else {
            match futures_lite::future::block_on(v3::Connect::decode_with_protocol(&mut rest, pv)) {
                Ok(c) => Ok(jok(v3_to_json(&v3::Packet::Connect(c)))),
                Err(e) => Ok(err3_to_json(&e)),
            }
        }
    });
    match r {
        Err(m) => jpanic(&m),
        Ok(Err(m)) => json!({"k": "harness", "why": m}),
        Ok(Ok(j)) => j,
    }
}

fn cross_event(out: &mut Out, native: &str, frame: &[u8], native_packet: &J) {
    // position right after protocol name and level
    let mut hd = 1usize;
    while hd < frame.len() && frame[hd] & 0x80 != 0 {
        hd += 1;
    }
    hd += 1;
    let name_len = ((frame[hd] as usize) << 8) | frame[hd + 1] as usize;
    let after = hd + 2 + name_len + 1;
    let mut fronts = Vec::new();
    // ("block-prefix": the blocking decoder over a receive buffer that so far holds the frame up to the protocol level
    //  and nothing more - the family is identified without waiting for the rest of the CONNECT)
    for front in ["block", "block-prefix", "async", "async-whole", "poll"] {
        let input = if front == "block-prefix" { &frame[..after.min(frame.len())] } else { frame };
        let (r, pos) = if native == "v5" { cross_front::<V3>(input, front) } else { cross_front::<V5>(input, front) };
        let proto = r["a"].get(0).and_then(|x| x.as_str()).unwrap_or("").to_string();
        let resume = if r["e"] == "UnexpectedProtocol" { resume_native(native, &proto, frame, after) } else { json!({"k": "none"}) };
        fronts.push(json!({"front": front, "res": r, "pos": pos, "resume": resume}));
    }
    out.ev(json!({"ev": "Cross", "native": native, "bytes": jbytes(frame), "after_proto": after,
                  "native_packet": native_packet, "fronts": fronts}));
}

pub fn record_cross(out: &mut Out, tier: &str, seed: u64) {
    let n = if tier == "thorough" { 6000 } else { 300 };
    let mut rng = Rng::new(seed ^ 0xC13);
    let mut b = Budget { big: 20, huge: 0 };
    for _ in 0..n {
        let p = crate::gen::gen_v3(&mut rng, &mut b, "Connect");
        if let Some(e) = enc::<V3>(&p).1 {
            cross_event(out, "v3", &e, &v3_to_json(&p));
        }
        let p = crate::gen::gen_v5(&mut rng, &mut b, "Connect");
        if let Some(e) = enc::<V5>(&p).1 {
            cross_event(out, "v5", &e, &v5_to_json(&p));
        }
    }
    // CONNECTs larger than the other family could ever send (a size bound in front of the family check must not
    // replace the identification)
    {
        use std::sync::Arc;
        let mut c5 = v5::Connect::new(Arc::new("c".to_string()), 10);
        c5.properties.user_properties = (0..6)
            .map(|i| v5::UserProperty { name: Arc::new(format!("k{i}")), value: Arc::new("v".repeat(60000)) })
            .collect();
        let p5 = v5::Packet::Connect(c5);
        if let Some(e) = enc::<V5>(&p5).1 {
            cross_event(out, "v5", &e, &v5_to_json(&p5));
        }
        for pv in [mqtt_proto::Protocol::V310, mqtt_proto::Protocol::V311] {
            let mut c3 = v3::Connect::new(Arc::new("c".repeat(65535)), 10);
            c3.protocol = pv;
            c3.username = Some(Arc::new("u".repeat(65535)));
            c3.password = Some(bytes::Bytes::from(vec![7u8; 65535]));
            c3.last_will = Some(v3::LastWill {
                qos: mqtt_proto::QoS::Level1,
                retain: false,
                topic_name: mqtt_proto::TopicName::try_from("t".repeat(65535)).unwrap(),
                message: bytes::Bytes::from(vec![8u8; 65535]),
            });
            let p3 = v3::Packet::Connect(c3);
            if let Some(e) = enc::<V3>(&p3).1 {
                cross_event(out, "v3", &e, &v3_to_json(&p3));
            }
        }
    }
    // protocol name / level table: every level with correct and corrupted names, both families, all front-ends
    // incl. a correct name followed by a byte that looks like a level (a reader that clamps or truncates the name
    // would take that byte as the level), and proper prefixes of the correct names
    let names: [&[u8]; 19] = [b"MQTT", b"MQIsdp", b"MQTt", b"", b"MQTTT", &[0x4D, 0xFF, 0x54], b"mqtt",
                              "xxxxxxxxx😀😀".as_bytes(), "ééééééééééééééééé".as_bytes(), "MQIsdp€€€€€€€€".as_bytes(),
                              b"MQIsdp\x03", b"MQIsdp\x04", b"MQIsdp\x05", b"MQTT\x03", b"MQTT\x04", b"MQTT\x05",
                              b"MQT", b"MQIsd", b"MQTTMQTT"];
    // ... and names that differ from a correct one only by NUL bytes (a name compared as an integer, a C string)
    let names2: [&[u8]; 7] = [b"\0MQTT", b"\0\0MQTT", b"\0\0\0\0MQTT", b"\0MQIsdp", b"\0\0MQIsdp", b"MQTT\0", b"MQIsdp\0"];
    let names: Vec<&[u8]> = names.iter().copied().chain(names2.iter().copied()).collect();
    for nm in names {
        for level in 0..=255u8 {
            let mut body = crate::topic::field(nm);
            body.push(level);
            body.extend_from_slice(&[0x02, 0, 10]);
            let mut b3 = body.clone();
            b3.extend(crate::topic::field(b"c"));
            let mut b5 = body.clone();
            b5.push(0);
            b5.extend(crate::topic::field(b"c"));
            // "bare": the frame ends right after the level (a reader that fetches name and level in one fixed-size
            // block runs out of input there)
            let mut bare = crate::topic::field(nm);
            bare.push(level);
            for (fam, fr) in [("v3", crate::topic::frame(0x10, &b3)), ("v5", crate::topic::frame(0x10, &b5)), ("bare", crate::topic::frame(0x10, &bare))] {
                // presented to BOTH decoder families
                let r3: Vec<J> = ["block", "async", "poll"].iter().map(|f| cross_front::<V3>(&fr, f).0).collect();
                let r5: Vec<J> = ["block", "async", "poll"].iter().map(|f| cross_front::<V5>(&fr, f).0).collect();
                out.ev(json!({"ev": "ProtoTable", "layout": fam, "name": jbytes(nm), "level": level, "bytes": jbytes(&fr),
                              "v3": r3, "v5": r5}));
            }
        }
    }
    let _ = Arc::new(0);
    let _: Option<GenericPollPacketState<v3::Header>> = None;
    let _ = std::mem::size_of::<GenericPollPacket<'static, ScriptedReader, v3::Header>>();
}
