//! Bijection between the library's packet values and the abstract packet JSON shared with the
//! TLA+ specification (DESIGN.md Appendix C).
//!
//! * text fields are arrays of bytes (so invalid UTF-8 can be represented on the spec side),
//! * options are `[]` / `[v]`,
//! * four-byte integers are 4-element big-endian byte arrays (TLC integers are 32-bit signed),
//! * enum values travel by their `Debug` *name*; the numeric value of a variant is never read
//!   here (the spec owns the numbering, typed from the OASIS tables).

use std::convert::TryFrom;
use std::sync::Arc;

use bytes::Bytes;
use mqtt_proto::{v3, v5, Pid, Protocol, QoS, QosPid, TopicFilter, TopicName};
use serde_json::{json, Map, Value as J};

pub type R<T> = Result<T, String>;

// ------------------------------------------------------------------------------------------------
// primitives

pub fn jbytes(b: &[u8]) -> J {
    J::Array(b.iter().map(|x| J::from(*x)).collect())
}
pub fn jtext(s: &str) -> J {
    jbytes(s.as_bytes())
}
pub fn ju32(v: u32) -> J {
    jbytes(&v.to_be_bytes())
}
pub fn jopt(v: Option<J>) -> J {
    match v {
        None => json!([]),
        Some(x) => json!([x]),
    }
}
pub fn qos_num(q: QoS) -> u8 {
    match q {
        QoS::Level0 => 0,
        QoS::Level1 => 1,
        QoS::Level2 => 2,
    }
}
pub fn qos_of(n: u64) -> R<QoS> {
    match n {
        0 => Ok(QoS::Level0),
        1 => Ok(QoS::Level1),
        2 => Ok(QoS::Level2),
        _ => Err(format!("qos {n}")),
    }
}
pub fn proto_name(p: Protocol) -> &'static str {
    match p {
        Protocol::V310 => "V310",
        Protocol::V311 => "V311",
        Protocol::V500 => "V500",
    }
}
pub fn proto_of(s: &str) -> R<Protocol> {
    match s {
        "V310" => Ok(Protocol::V310),
        "V311" => Ok(Protocol::V311),
        "V500" => Ok(Protocol::V500),
        _ => Err(format!("protocol {s}")),
    }
}

pub fn get<'a>(j: &'a J, k: &str) -> R<&'a J> {
    j.get(k).ok_or_else(|| format!("missing field {k}"))
}
pub fn as_bytes(j: &J) -> R<Vec<u8>> {
    let a = j.as_array().ok_or("bytes: not an array")?;
    a.iter()
        .map(|x| {
            x.as_u64()
                .filter(|v| *v < 256)
                .map(|v| v as u8)
                .ok_or_else(|| "bytes: bad element".to_string())
        })
        .collect()
}
pub fn as_text(j: &J) -> R<String> {
    String::from_utf8(as_bytes(j)?).map_err(|_| "text: not utf8".to_string())
}
pub fn as_u32(j: &J) -> R<u32> {
    let b = as_bytes(j)?;
    if b.len() != 4 {
        return Err("u32: need 4 bytes".into());
    }
    Ok(u32::from_be_bytes([b[0], b[1], b[2], b[3]]))
}
pub fn as_u16(j: &J) -> R<u16> {
    j.as_u64()
        .filter(|v| *v <= 65535)
        .map(|v| v as u16)
        .ok_or_else(|| "u16".to_string())
}
pub fn as_bool(j: &J) -> R<bool> {
    j.as_bool().ok_or_else(|| "bool".to_string())
}
pub fn as_opt(j: &J) -> R<Option<&J>> {
    let a = j.as_array().ok_or("opt: not an array")?;
    match a.len() {
        0 => Ok(None),
        1 => Ok(Some(&a[0])),
        _ => Err("opt: more than one element".into()),
    }
}
pub fn as_pid(j: &J) -> R<Pid> {
    Pid::try_from(as_u16(j)?).map_err(|e| format!("pid: {e:?}"))
}
fn opt_map<T>(j: &J, f: impl Fn(&J) -> R<T>) -> R<Option<T>> {
    match as_opt(j)? {
        None => Ok(None),
        Some(x) => Ok(Some(f(x)?)),
    }
}
fn topic_name(j: &J) -> R<TopicName> {
    TopicName::try_from(as_text(j)?).map_err(|e| format!("topic name: {e:?}"))
}
fn topic_filter(j: &J) -> R<TopicFilter> {
    TopicFilter::try_from(as_text(j)?).map_err(|e| format!("topic filter: {e:?}"))
}
fn arc_text(j: &J) -> R<Arc<String>> {
    Ok(Arc::new(as_text(j)?))
}
fn jbin(j: &J) -> R<Bytes> {
    Ok(Bytes::from(as_bytes(j)?))
}

fn qospid_to(q: QosPid) -> (u8, J) {
    match q {
        QosPid::Level0 => (0, json!([])),
        QosPid::Level1(p) => (1, json!([p.value()])),
        QosPid::Level2(p) => (2, json!([p.value()])),
    }
}
fn qospid_from(qos: &J, pid: &J) -> R<QosPid> {
    let q = qos.as_u64().ok_or("qos")?;
    let p = opt_map(pid, as_pid)?;
    match (q, p) {
        (0, None) => Ok(QosPid::Level0),
        (1, Some(p)) => Ok(QosPid::Level1(p)),
        (2, Some(p)) => Ok(QosPid::Level2(p)),
        _ => Err("qos/pid mismatch".into()),
    }
}

// ------------------------------------------------------------------------------------------------
// enum tables (names only)

macro_rules! enum_table {
    ($fname:ident, $all:ident, $t:ty, [$($v:ident),* $(,)?]) => {
        pub fn $fname(s: &str) -> R<$t> {
            $( if s == stringify!($v) { return Ok(<$t>::$v); } )*
            Err(format!("unknown {} variant {}", stringify!($t), s))
        }
        pub const $all: &[$t] = &[ $(<$t>::$v),* ];
    };
}

enum_table!(v3_connect_rc, V3_CONNECT_RC, v3::ConnectReturnCode, [
    Accepted, UnacceptableProtocolVersion, IdentifierRejected, ServerUnavailable,
    BadUserNameOrPassword, NotAuthorized
]);
enum_table!(v3_sub_rc, V3_SUB_RC, v3::SubscribeReturnCode, [MaxLevel0, MaxLevel1, MaxLevel2, Failure]);
enum_table!(v5_connect_rc, V5_CONNECT_RC, v5::ConnectReasonCode, [
    Success, UnspecifiedError, MalformedPacket, ProtocolError, ImplementationSpecificError,
    UnsupportedProtocolVersion, ClientIdentifierNotValid, BadUserNameOrPassword, NotAuthorized,
    ServerUnavailable, ServerBusy, Banned, BadAuthMethod, TopicNameInvalid, PacketTooLarge,
    QuotaExceeded, PayloadFormatInvalid, RetainNotSupported, QoSNotSupported, UseAnotherServer,
    ServerMoved, ConnectionRateExceeded
]);
enum_table!(v5_disconnect_rc, V5_DISCONNECT_RC, v5::DisconnectReasonCode, [
    NormalDisconnect, DisconnectWithWillMessage, UnspecifiedError, MalformedPacket, ProtocolError,
    ImplementationSpecificError, NotAuthorized, ServerBusy, ServerShuttingDown, KeepAliveTimeout,
    SessionTakenOver, TopicFilterInvalid, TopicNameInvalid, ReceiveMaximumExceeded,
    TopicAliasInvalid, PacketTooLarge, MessageRateTooHigh, QuotaExceeded, AdministrativeAction,
    PayloadFormatInvalid, RetainNotSupported, QoSNotSupported, UserAnotherServer, ServerMoved,
    SharedSubscriptionNotSupported, ConnectionRateExceeded, MaximumConnectTime,
    SubscriptionIdentifiersNotSupported, WildcardSubscriptionsNotSupported
]);
enum_table!(v5_auth_rc, V5_AUTH_RC, v5::AuthReasonCode, [Success, ContinueAuthentication, ReAuthentication]);
enum_table!(v5_puback_rc, V5_PUBACK_RC, v5::PubackReasonCode, [
    Success, NoMatchingSubscribers, UnspecifiedError, ImplementationSpecificError, NotAuthorized,
    TopicNameInvalid, PacketIdentifierInUse, QuotaExceeded, PayloadFormatInvalid
]);
enum_table!(v5_pubrec_rc, V5_PUBREC_RC, v5::PubrecReasonCode, [
    Success, NoMatchingSubscribers, UnspecifiedError, ImplementationSpecificError, NotAuthorized,
    TopicNameInvalid, PacketIdentifierInUse, QuotaExceeded, PayloadFormatInvalid
]);
enum_table!(v5_pubrel_rc, V5_PUBREL_RC, v5::PubrelReasonCode, [Success, PacketIdentifierNotFound]);
enum_table!(v5_pubcomp_rc, V5_PUBCOMP_RC, v5::PubcompReasonCode, [Success, PacketIdentifierNotFound]);
enum_table!(v5_sub_rc, V5_SUB_RC, v5::SubscribeReasonCode, [
    GrantedQoS0, GrantedQoS1, GrantedQoS2, UnspecifiedError, ImplementationSpecificError,
    NotAuthorized, TopicFilterInvalid, PacketIdentifierInUse, QuotaExceeded,
    SharedSubscriptionNotSupported, SubscriptionIdentifiersNotSupported,
    WildcardSubscriptionsNotSupported
]);
enum_table!(v5_unsub_rc, V5_UNSUB_RC, v5::UnsubscribeReasonCode, [
    Success, NoSubscriptionExisted, UnspecifiedError, ImplementationSpecificError, NotAuthorized,
    TopicFilterInvalid, PacketIdentifierInUse
]);
enum_table!(v5_rh, V5_RH, v5::RetainHandling, [SendAtSubscribe, SendAtSubscribeIfNotExist, DoNotSend]);

fn dbg<T: std::fmt::Debug>(t: &T) -> J {
    J::String(format!("{t:?}"))
}
fn as_str(j: &J) -> R<&str> {
    j.as_str().ok_or_else(|| "string expected".to_string())
}

// ------------------------------------------------------------------------------------------------
// v3

pub fn v3_to_json(p: &v3::Packet) -> J {
    use v3::Packet as P;
    match p {
        P::Connect(c) => json!({
            "t": "Connect",
            "protocol": proto_name(c.protocol),
            "clean": c.clean_session,
            "keep_alive": c.keep_alive,
            "client_id": jtext(&c.client_id),
            "will": jopt(c.last_will.as_ref().map(|w| json!({
                "qos": qos_num(w.qos), "retain": w.retain,
                "topic": jtext(&w.topic_name), "message": jbytes(&w.message)}))),
            "username": jopt(c.username.as_ref().map(|u| jtext(u))),
            "password": jopt(c.password.as_ref().map(|u| jbytes(u))),
        }),
        P::Connack(c) => json!({"t": "Connack", "sp": c.session_present, "code": dbg(&c.code)}),
        P::Publish(p) => {
            let (q, pid) = qospid_to(p.qos_pid);
            json!({"t": "Publish", "dup": p.dup, "retain": p.retain, "qos": q, "pid": pid,
                   "topic": jtext(&p.topic_name), "payload": jbytes(&p.payload)})
        }
        P::Puback(pid) => json!({"t": "Puback", "pid": pid.value()}),
        P::Pubrec(pid) => json!({"t": "Pubrec", "pid": pid.value()}),
        P::Pubrel(pid) => json!({"t": "Pubrel", "pid": pid.value()}),
        P::Pubcomp(pid) => json!({"t": "Pubcomp", "pid": pid.value()}),
        P::Unsuback(pid) => json!({"t": "Unsuback", "pid": pid.value()}),
        P::Subscribe(s) => json!({"t": "Subscribe", "pid": s.pid.value(),
            "topics": s.topics.iter().map(|(f, q)| json!({"filter": jtext(f), "qos": qos_num(*q)})).collect::<Vec<_>>()}),
        P::Suback(s) => json!({"t": "Suback", "pid": s.pid.value(),
            "codes": s.topics.iter().map(dbg).collect::<Vec<_>>()}),
        P::Unsubscribe(s) => json!({"t": "Unsubscribe", "pid": s.pid.value(),
            "topics": s.topics.iter().map(|f| jtext(f)).collect::<Vec<_>>()}),
        P::Pingreq => json!({"t": "Pingreq"}),
        P::Pingresp => json!({"t": "Pingresp"}),
        P::Disconnect => json!({"t": "Disconnect"}),
    }
}

pub fn v3_from_json(j: &J) -> R<v3::Packet> {
    use v3::Packet as P;
    let t = as_str(get(j, "t")?)?;
    Ok(match t {
        "Connect" => P::Connect(v3::Connect {
            protocol: proto_of(as_str(get(j, "protocol")?)?)?,
            clean_session: as_bool(get(j, "clean")?)?,
            keep_alive: as_u16(get(j, "keep_alive")?)?,
            client_id: arc_text(get(j, "client_id")?)?,
            last_will: opt_map(get(j, "will")?, |w| {
                Ok(v3::LastWill {
                    qos: qos_of(get(w, "qos")?.as_u64().ok_or("qos")?)?,
                    retain: as_bool(get(w, "retain")?)?,
                    topic_name: topic_name(get(w, "topic")?)?,
                    message: jbin(get(w, "message")?)?,
                })
            })?,
            username: opt_map(get(j, "username")?, arc_text)?,
            password: opt_map(get(j, "password")?, jbin)?,
        }),
        "Connack" => P::Connack(v3::Connack {
            session_present: as_bool(get(j, "sp")?)?,
            code: v3_connect_rc(as_str(get(j, "code")?)?)?,
        }),
        "Publish" => P::Publish(v3::Publish {
            dup: as_bool(get(j, "dup")?)?,
            retain: as_bool(get(j, "retain")?)?,
            qos_pid: qospid_from(get(j, "qos")?, get(j, "pid")?)?,
            topic_name: topic_name(get(j, "topic")?)?,
            payload: jbin(get(j, "payload")?)?,
        }),
        "Puback" => P::Puback(as_pid(get(j, "pid")?)?),
        "Pubrec" => P::Pubrec(as_pid(get(j, "pid")?)?),
        "Pubrel" => P::Pubrel(as_pid(get(j, "pid")?)?),
        "Pubcomp" => P::Pubcomp(as_pid(get(j, "pid")?)?),
        "Unsuback" => P::Unsuback(as_pid(get(j, "pid")?)?),
        "Subscribe" => P::Subscribe(v3::Subscribe {
            pid: as_pid(get(j, "pid")?)?,
            topics: get(j, "topics")?
                .as_array()
                .ok_or("topics")?
                .iter()
                .map(|e| {
                    Ok((
                        topic_filter(get(e, "filter")?)?,
                        qos_of(get(e, "qos")?.as_u64().ok_or("qos")?)?,
                    ))
                })
                .collect::<R<Vec<_>>>()?,
        }),
        "Suback" => P::Suback(v3::Suback {
            pid: as_pid(get(j, "pid")?)?,
            topics: get(j, "codes")?
                .as_array()
                .ok_or("codes")?
                .iter()
                .map(|e| v3_sub_rc(as_str(e)?))
                .collect::<R<Vec<_>>>()?,
        }),
        "Unsubscribe" => P::Unsubscribe(v3::Unsubscribe {
            pid: as_pid(get(j, "pid")?)?,
            topics: get(j, "topics")?
                .as_array()
                .ok_or("topics")?
                .iter()
                .map(topic_filter)
                .collect::<R<Vec<_>>>()?,
        }),
        "Pingreq" => P::Pingreq,
        "Pingresp" => P::Pingresp,
        "Disconnect" => P::Disconnect,
        _ => return Err(format!("v3 type {t}")),
    })
}

// ------------------------------------------------------------------------------------------------
// v5 properties

fn users_to(u: &[v5::UserProperty]) -> J {
    J::Array(
        u.iter()
            .map(|p| json!([jtext(&p.name), jtext(&p.value)]))
            .collect(),
    )
}
fn users_from(j: &J) -> R<Vec<v5::UserProperty>> {
    j.as_array()
        .ok_or("user")?
        .iter()
        .map(|e| {
            let a = e.as_array().ok_or("user pair")?;
            if a.len() != 2 {
                return Err("user pair len".to_string());
            }
            Ok(v5::UserProperty {
                name: arc_text(&a[0])?,
                value: arc_text(&a[1])?,
            })
        })
        .collect()
}
fn ob(x: Option<bool>) -> J {
    jopt(x.map(J::from))
}
fn o16(x: Option<u16>) -> J {
    jopt(x.map(J::from))
}
fn o32(x: Option<u32>) -> J {
    jopt(x.map(ju32))
}
fn ostr(x: &Option<Arc<String>>) -> J {
    jopt(x.as_ref().map(|s| jtext(s)))
}
fn obin(x: &Option<Bytes>) -> J {
    jopt(x.as_ref().map(|s| jbytes(s)))
}
fn otopic(x: &Option<TopicName>) -> J {
    jopt(x.as_ref().map(|s| jtext(s)))
}
fn ovbi(x: Option<v5::VarByteInt>) -> J {
    jopt(x.map(|v| J::from(v.value())))
}
fn fb(j: &J, k: &str) -> R<Option<bool>> {
    opt_map(get(j, k)?, as_bool)
}
fn f16(j: &J, k: &str) -> R<Option<u16>> {
    opt_map(get(j, k)?, as_u16)
}
fn f32_(j: &J, k: &str) -> R<Option<u32>> {
    opt_map(get(j, k)?, as_u32)
}
fn fstr(j: &J, k: &str) -> R<Option<Arc<String>>> {
    opt_map(get(j, k)?, arc_text)
}
fn fbin(j: &J, k: &str) -> R<Option<Bytes>> {
    opt_map(get(j, k)?, jbin)
}
fn ftopic(j: &J, k: &str) -> R<Option<TopicName>> {
    opt_map(get(j, k)?, topic_name)
}
fn fvbi(j: &J, k: &str) -> R<Option<v5::VarByteInt>> {
    opt_map(get(j, k)?, |x| {
        let v = x.as_u64().ok_or("varint")?;
        v5::VarByteInt::try_from(v as u32).map_err(|e| format!("{e:?}"))
    })
}

pub fn connect_props_to(p: &v5::ConnectProperties) -> J {
    json!({"sei": o32(p.session_expiry_interval), "rm": o16(p.receive_max),
           "mps": o32(p.max_packet_size), "tam": o16(p.topic_alias_max),
           "rri": ob(p.request_response_info), "rpi": ob(p.request_problem_info),
           "am": ostr(&p.auth_method), "ad": obin(&p.auth_data),
           "user": users_to(&p.user_properties)})
}
pub fn connect_props_from(j: &J) -> R<v5::ConnectProperties> {
    Ok(v5::ConnectProperties {
        session_expiry_interval: f32_(j, "sei")?,
        receive_max: f16(j, "rm")?,
        max_packet_size: f32_(j, "mps")?,
        topic_alias_max: f16(j, "tam")?,
        request_response_info: fb(j, "rri")?,
        request_problem_info: fb(j, "rpi")?,
        user_properties: users_from(get(j, "user")?)?,
        auth_method: fstr(j, "am")?,
        auth_data: fbin(j, "ad")?,
    })
}
pub fn will_props_to(p: &v5::WillProperties) -> J {
    json!({"wdi": o32(p.delay_interval), "pfi": ob(p.payload_is_utf8),
           "mei": o32(p.message_expiry_interval), "ct": ostr(&p.content_type),
           "rt": otopic(&p.response_topic), "cd": obin(&p.correlation_data),
           "user": users_to(&p.user_properties)})
}
pub fn will_props_from(j: &J) -> R<v5::WillProperties> {
    Ok(v5::WillProperties {
        delay_interval: f32_(j, "wdi")?,
        payload_is_utf8: fb(j, "pfi")?,
        message_expiry_interval: f32_(j, "mei")?,
        content_type: fstr(j, "ct")?,
        response_topic: ftopic(j, "rt")?,
        correlation_data: fbin(j, "cd")?,
        user_properties: users_from(get(j, "user")?)?,
    })
}
pub fn connack_props_to(p: &v5::ConnackProperties) -> J {
    json!({"sei": o32(p.session_expiry_interval), "rm": o16(p.receive_max),
           "mq": jopt(p.max_qos.map(|q| J::from(qos_num(q)))), "ra": ob(p.retain_available),
           "mps": o32(p.max_packet_size), "aci": ostr(&p.assigned_client_id),
           "tam": o16(p.topic_alias_max), "rs": ostr(&p.reason_string),
           "wsa": ob(p.wildcard_subscription_available), "sia": ob(p.subscription_id_available),
           "ssa": ob(p.shared_subscription_available), "ska": o16(p.server_keep_alive),
           "ri": ostr(&p.response_info), "sr": ostr(&p.server_reference),
           "am": ostr(&p.auth_method), "ad": obin(&p.auth_data),
           "user": users_to(&p.user_properties)})
}
pub fn connack_props_from(j: &J) -> R<v5::ConnackProperties> {
    Ok(v5::ConnackProperties {
        session_expiry_interval: f32_(j, "sei")?,
        receive_max: f16(j, "rm")?,
        max_qos: opt_map(get(j, "mq")?, |x| qos_of(x.as_u64().ok_or("mq")?))?,
        retain_available: fb(j, "ra")?,
        max_packet_size: f32_(j, "mps")?,
        assigned_client_id: fstr(j, "aci")?,
        topic_alias_max: f16(j, "tam")?,
        reason_string: fstr(j, "rs")?,
        user_properties: users_from(get(j, "user")?)?,
        wildcard_subscription_available: fb(j, "wsa")?,
        subscription_id_available: fb(j, "sia")?,
        shared_subscription_available: fb(j, "ssa")?,
        server_keep_alive: f16(j, "ska")?,
        response_info: fstr(j, "ri")?,
        server_reference: fstr(j, "sr")?,
        auth_method: fstr(j, "am")?,
        auth_data: fbin(j, "ad")?,
    })
}
pub fn publish_props_to(p: &v5::PublishProperties) -> J {
    json!({"pfi": ob(p.payload_is_utf8), "mei": o32(p.message_expiry_interval),
           "ta": o16(p.topic_alias), "rt": otopic(&p.response_topic),
           "cd": obin(&p.correlation_data), "sid": ovbi(p.subscription_id),
           "ct": ostr(&p.content_type), "user": users_to(&p.user_properties)})
}
pub fn publish_props_from(j: &J) -> R<v5::PublishProperties> {
    Ok(v5::PublishProperties {
        payload_is_utf8: fb(j, "pfi")?,
        message_expiry_interval: f32_(j, "mei")?,
        topic_alias: f16(j, "ta")?,
        response_topic: ftopic(j, "rt")?,
        correlation_data: fbin(j, "cd")?,
        user_properties: users_from(get(j, "user")?)?,
        subscription_id: fvbi(j, "sid")?,
        content_type: fstr(j, "ct")?,
    })
}
macro_rules! rs_user_props {
    ($to:ident, $from:ident, $t:ident) => {
        pub fn $to(p: &v5::$t) -> J {
            json!({"rs": ostr(&p.reason_string), "user": users_to(&p.user_properties)})
        }
        pub fn $from(j: &J) -> R<v5::$t> {
            Ok(v5::$t {
                reason_string: fstr(j, "rs")?,
                user_properties: users_from(get(j, "user")?)?,
            })
        }
    };
}
rs_user_props!(puback_props_to, puback_props_from, PubackProperties);
rs_user_props!(pubrec_props_to, pubrec_props_from, PubrecProperties);
rs_user_props!(pubrel_props_to, pubrel_props_from, PubrelProperties);
rs_user_props!(pubcomp_props_to, pubcomp_props_from, PubcompProperties);
rs_user_props!(suback_props_to, suback_props_from, SubackProperties);
rs_user_props!(unsuback_props_to, unsuback_props_from, UnsubackProperties);

pub fn subscribe_props_to(p: &v5::SubscribeProperties) -> J {
    json!({"sid": ovbi(p.subscription_id), "user": users_to(&p.user_properties)})
}
pub fn subscribe_props_from(j: &J) -> R<v5::SubscribeProperties> {
    Ok(v5::SubscribeProperties {
        subscription_id: fvbi(j, "sid")?,
        user_properties: users_from(get(j, "user")?)?,
    })
}
pub fn unsubscribe_props_to(p: &v5::UnsubscribeProperties) -> J {
    json!({"user": users_to(&p.user_properties)})
}
pub fn unsubscribe_props_from(j: &J) -> R<v5::UnsubscribeProperties> {
    Ok(v5::UnsubscribeProperties {
        user_properties: users_from(get(j, "user")?)?,
    })
}
pub fn disconnect_props_to(p: &v5::DisconnectProperties) -> J {
    json!({"sei": o32(p.session_expiry_interval), "rs": ostr(&p.reason_string),
           "sr": ostr(&p.server_reference), "user": users_to(&p.user_properties)})
}
pub fn disconnect_props_from(j: &J) -> R<v5::DisconnectProperties> {
    Ok(v5::DisconnectProperties {
        session_expiry_interval: f32_(j, "sei")?,
        reason_string: fstr(j, "rs")?,
        user_properties: users_from(get(j, "user")?)?,
        server_reference: fstr(j, "sr")?,
    })
}
pub fn auth_props_to(p: &v5::AuthProperties) -> J {
    json!({"am": ostr(&p.auth_method), "ad": obin(&p.auth_data),
           "rs": ostr(&p.reason_string), "user": users_to(&p.user_properties)})
}
pub fn auth_props_from(j: &J) -> R<v5::AuthProperties> {
    Ok(v5::AuthProperties {
        auth_method: fstr(j, "am")?,
        auth_data: fbin(j, "ad")?,
        reason_string: fstr(j, "rs")?,
        user_properties: users_from(get(j, "user")?)?,
    })
}

// ------------------------------------------------------------------------------------------------
// v5 packets

pub fn v5_will_to(w: &v5::LastWill) -> J {
    json!({"qos": qos_num(w.qos), "retain": w.retain, "props": will_props_to(&w.properties),
           "topic": jtext(&w.topic_name), "payload": jbytes(&w.payload)})
}
pub fn v5_will_from(w: &J) -> R<v5::LastWill> {
    Ok(v5::LastWill {
        qos: qos_of(get(w, "qos")?.as_u64().ok_or("qos")?)?,
        retain: as_bool(get(w, "retain")?)?,
        topic_name: topic_name(get(w, "topic")?)?,
        payload: jbin(get(w, "payload")?)?,
        properties: will_props_from(get(w, "props")?)?,
    })
}

pub fn v5_to_json(p: &v5::Packet) -> J {
    use v5::Packet as P;
    match p {
        P::Connect(c) => json!({
            "t": "Connect",
            "protocol": proto_name(c.protocol),
            "clean": c.clean_start,
            "keep_alive": c.keep_alive,
            "props": connect_props_to(&c.properties),
            "client_id": jtext(&c.client_id),
            "will": jopt(c.last_will.as_ref().map(v5_will_to)),
            "username": jopt(c.username.as_ref().map(|u| jtext(u))),
            "password": jopt(c.password.as_ref().map(|u| jbytes(u))),
        }),
        P::Connack(c) => json!({"t": "Connack", "sp": c.session_present, "code": dbg(&c.reason_code),
                                "props": connack_props_to(&c.properties)}),
        P::Publish(p) => {
            let (q, pid) = qospid_to(p.qos_pid);
            json!({"t": "Publish", "dup": p.dup, "retain": p.retain, "qos": q, "pid": pid,
                   "topic": jtext(&p.topic_name), "payload": jbytes(&p.payload),
                   "props": publish_props_to(&p.properties)})
        }
        P::Puback(a) => json!({"t": "Puback", "pid": a.pid.value(), "code": dbg(&a.reason_code),
                               "props": puback_props_to(&a.properties)}),
        P::Pubrec(a) => json!({"t": "Pubrec", "pid": a.pid.value(), "code": dbg(&a.reason_code),
                               "props": pubrec_props_to(&a.properties)}),
        P::Pubrel(a) => json!({"t": "Pubrel", "pid": a.pid.value(), "code": dbg(&a.reason_code),
                               "props": pubrel_props_to(&a.properties)}),
        P::Pubcomp(a) => json!({"t": "Pubcomp", "pid": a.pid.value(), "code": dbg(&a.reason_code),
                                "props": pubcomp_props_to(&a.properties)}),
        P::Subscribe(s) => json!({"t": "Subscribe", "pid": s.pid.value(),
            "props": subscribe_props_to(&s.properties),
            "topics": s.topics.iter().map(|(f, o)| json!({
                "filter": jtext(f), "qos": qos_num(o.max_qos), "nl": o.no_local,
                "rap": o.retain_as_published, "rh": dbg(&o.retain_handling)})).collect::<Vec<_>>()}),
        P::Suback(s) => json!({"t": "Suback", "pid": s.pid.value(),
            "props": suback_props_to(&s.properties),
            "codes": s.topics.iter().map(dbg).collect::<Vec<_>>()}),
        P::Unsubscribe(s) => json!({"t": "Unsubscribe", "pid": s.pid.value(),
            "props": unsubscribe_props_to(&s.properties),
            "topics": s.topics.iter().map(|f| jtext(f)).collect::<Vec<_>>()}),
        P::Unsuback(s) => json!({"t": "Unsuback", "pid": s.pid.value(),
            "props": unsuback_props_to(&s.properties),
            "codes": s.topics.iter().map(dbg).collect::<Vec<_>>()}),
        P::Pingreq => json!({"t": "Pingreq"}),
        P::Pingresp => json!({"t": "Pingresp"}),
        P::Disconnect(d) => json!({"t": "Disconnect", "code": dbg(&d.reason_code),
                                   "props": disconnect_props_to(&d.properties)}),
        P::Auth(d) => json!({"t": "Auth", "code": dbg(&d.reason_code),
                             "props": auth_props_to(&d.properties)}),
    }
}

pub fn v5_from_json(j: &J) -> R<v5::Packet> {
    use v5::Packet as P;
    let t = as_str(get(j, "t")?)?;
    let codes = |f: &dyn Fn(&str) -> R<()>| -> R<()> {
        for e in get(j, "codes")?.as_array().ok_or("codes")? {
            f(as_str(e)?)?;
        }
        Ok(())
    };
    let _ = &codes;
    Ok(match t {
        "Connect" => P::Connect(v5::Connect {
            protocol: proto_of(as_str(get(j, "protocol")?)?)?,
            clean_start: as_bool(get(j, "clean")?)?,
            keep_alive: as_u16(get(j, "keep_alive")?)?,
            properties: connect_props_from(get(j, "props")?)?,
            client_id: arc_text(get(j, "client_id")?)?,
            last_will: opt_map(get(j, "will")?, v5_will_from)?,
            username: opt_map(get(j, "username")?, arc_text)?,
            password: opt_map(get(j, "password")?, jbin)?,
        }),
        "Connack" => P::Connack(v5::Connack {
            session_present: as_bool(get(j, "sp")?)?,
            reason_code: v5_connect_rc(as_str(get(j, "code")?)?)?,
            properties: connack_props_from(get(j, "props")?)?,
        }),
        "Publish" => P::Publish(v5::Publish {
            dup: as_bool(get(j, "dup")?)?,
            retain: as_bool(get(j, "retain")?)?,
            qos_pid: qospid_from(get(j, "qos")?, get(j, "pid")?)?,
            topic_name: topic_name(get(j, "topic")?)?,
            payload: jbin(get(j, "payload")?)?,
            properties: publish_props_from(get(j, "props")?)?,
        }),
        "Puback" => P::Puback(v5::Puback {
            pid: as_pid(get(j, "pid")?)?,
            reason_code: v5_puback_rc(as_str(get(j, "code")?)?)?,
            properties: puback_props_from(get(j, "props")?)?,
        }),
        "Pubrec" => P::Pubrec(v5::Pubrec {
            pid: as_pid(get(j, "pid")?)?,
            reason_code: v5_pubrec_rc(as_str(get(j, "code")?)?)?,
            properties: pubrec_props_from(get(j, "props")?)?,
        }),
        "Pubrel" => P::Pubrel(v5::Pubrel {
            pid: as_pid(get(j, "pid")?)?,
            reason_code: v5_pubrel_rc(as_str(get(j, "code")?)?)?,
            properties: pubrel_props_from(get(j, "props")?)?,
        }),
        "Pubcomp" => P::Pubcomp(v5::Pubcomp {
            pid: as_pid(get(j, "pid")?)?,
            reason_code: v5_pubcomp_rc(as_str(get(j, "code")?)?)?,
            properties: pubcomp_props_from(get(j, "props")?)?,
        }),
        "Subscribe" => P::Subscribe(v5::Subscribe {
            pid: as_pid(get(j, "pid")?)?,
            properties: subscribe_props_from(get(j, "props")?)?,
            topics: get(j, "topics")?
                .as_array()
                .ok_or("topics")?
                .iter()
                .map(|e| {
                    Ok((
                        topic_filter(get(e, "filter")?)?,
                        v5::SubscriptionOptions {
                            max_qos: qos_of(get(e, "qos")?.as_u64().ok_or("qos")?)?,
                            no_local: as_bool(get(e, "nl")?)?,
                            retain_as_published: as_bool(get(e, "rap")?)?,
                            retain_handling: v5_rh(as_str(get(e, "rh")?)?)?,
                        },
                    ))
                })
                .collect::<R<Vec<_>>>()?,
        }),
        "Suback" => P::Suback(v5::Suback {
            pid: as_pid(get(j, "pid")?)?,
            properties: suback_props_from(get(j, "props")?)?,
            topics: get(j, "codes")?
                .as_array()
                .ok_or("codes")?
                .iter()
                .map(|e| v5_sub_rc(as_str(e)?))
                .collect::<R<Vec<_>>>()?,
        }),
        "Unsubscribe" => P::Unsubscribe(v5::Unsubscribe {
            pid: as_pid(get(j, "pid")?)?,
            properties: unsubscribe_props_from(get(j, "props")?)?,
            topics: get(j, "topics")?
                .as_array()
                .ok_or("topics")?
                .iter()
                .map(topic_filter)
                .collect::<R<Vec<_>>>()?,
        }),
        "Unsuback" => P::Unsuback(v5::Unsuback {
            pid: as_pid(get(j, "pid")?)?,
            properties: unsuback_props_from(get(j, "props")?)?,
            topics: get(j, "codes")?
                .as_array()
                .ok_or("codes")?
                .iter()
                .map(|e| v5_unsub_rc(as_str(e)?))
                .collect::<R<Vec<_>>>()?,
        }),
        "Pingreq" => P::Pingreq,
        "Pingresp" => P::Pingresp,
        "Disconnect" => P::Disconnect(v5::Disconnect {
            reason_code: v5_disconnect_rc(as_str(get(j, "code")?)?)?,
            properties: disconnect_props_from(get(j, "props")?)?,
        }),
        "Auth" => P::Auth(v5::Auth {
            reason_code: v5_auth_rc(as_str(get(j, "code")?)?)?,
            properties: auth_props_from(get(j, "props")?)?,
        }),
        _ => return Err(format!("v5 type {t}")),
    })
}

// ------------------------------------------------------------------------------------------------
// errors and results

pub fn io_kind_name(k: std::io::ErrorKind) -> String {
    format!("{k:?}")
}

/// `{"k":"err","e":<variant>,"a":[args]}`; `IoError` carries the kind only (never the message).
pub fn err3_to_json(e: &mqtt_proto::Error) -> J {
    use mqtt_proto::Error as E;
    let (n, a): (&str, Vec<J>) = match e {
        E::InvalidRemainingLength => ("InvalidRemainingLength", vec![]),
        E::EmptySubscription => ("EmptySubscription", vec![]),
        E::ZeroPid => ("ZeroPid", vec![]),
        E::InvalidQos(b) => ("InvalidQos", vec![J::from(*b)]),
        E::InvalidConnectFlags(b) => ("InvalidConnectFlags", vec![J::from(*b)]),
        E::InvalidConnackFlags(b) => ("InvalidConnackFlags", vec![J::from(*b)]),
        E::InvalidConnectReturnCode(b) => ("InvalidConnectReturnCode", vec![J::from(*b)]),
        E::InvalidProtocol(s, b) => ("InvalidProtocol", vec![jtext(s), J::from(*b)]),
        E::UnexpectedProtocol(p) => ("UnexpectedProtocol", vec![J::from(proto_name(*p))]),
        E::InvalidHeader => ("InvalidHeader", vec![]),
        E::InvalidVarByteInt => ("InvalidVarByteInt", vec![]),
        E::InvalidTopicName(s) => ("InvalidTopicName", vec![jtext(s)]),
        E::InvalidTopicFilter(s) => ("InvalidTopicFilter", vec![jtext(s)]),
        E::InvalidString => ("InvalidString", vec![]),
        E::IoError(k, _) => ("IoError", vec![J::from(io_kind_name(*k))]),
    };
    json!({"k": "err", "e": n, "a": a, "eof": e.is_eof()})
}

pub fn err5_to_json(e: &v5::ErrorV5) -> J {
    use v5::ErrorV5 as E;
    let (n, a): (&str, Vec<J>) = match e {
        E::Common(c) => {
            let mut j = err3_to_json(c);
            j["eof"] = J::from(e.is_eof());
            return j;
        }
        E::InvalidReasonCode(t, b) => ("InvalidReasonCode", vec![dbg(t), J::from(*b)]),
        E::InvalidSubscriptionOption(b) => ("InvalidSubscriptionOption", vec![J::from(*b)]),
        E::InvalidPayloadFormat => ("InvalidPayloadFormat", vec![]),
        E::InvalidResponseTopic => ("InvalidResponseTopic", vec![]),
        E::InvalidPropertyId(b) => ("InvalidPropertyId", vec![J::from(*b)]),
        E::InvalidPropertyLength(n) => ("InvalidPropertyLength", vec![J::from(*n)]),
        E::InvalidByteProperty(id, b) => ("InvalidByteProperty", vec![dbg(id), J::from(*b)]),
        E::DuplicatedProperty(id) => ("DuplicatedProperty", vec![dbg(id)]),
        E::InvalidProperty(t, id) => ("InvalidProperty", vec![dbg(t), dbg(id)]),
        E::InvalidWillProperty(id) => ("InvalidWillProperty", vec![dbg(id)]),
    };
    json!({"k": "err", "e": n, "a": a, "eof": e.is_eof()})
}

pub fn jpanic(msg: &str) -> J {
    let m: String = msg.chars().take(200).collect();
    json!({"k": "panic", "msg": m})
}
pub fn jok(v: J) -> J {
    json!({"k": "ok", "v": v})
}
pub fn jincomplete() -> J {
    json!({"k": "incomplete"})
}

pub fn header3_to_json(h: &v3::Header) -> J {
    json!({"typ": dbg(&h.typ), "dup": h.dup, "qos": qos_num(h.qos), "retain": h.retain,
           "remaining_len": h.remaining_len})
}
pub fn header5_to_json(h: &v5::Header) -> J {
    json!({"typ": dbg(&h.typ), "dup": h.dup, "qos": qos_num(h.qos), "retain": h.retain,
           "remaining_len": h.remaining_len})
}

pub fn obj(pairs: Vec<(&str, J)>) -> J {
    let mut m = Map::new();
    for (k, v) in pairs {
        m.insert(k.to_string(), v);
    }
    J::Object(m)
}
