//! Calls into the real codec, with every outcome (Ok / Err / panic / spin) turned into data.

use std::future::Future as _;
use std::mem::MaybeUninit;
use std::sync::Arc;

use mqtt_proto::{GenericPollPacket, GenericPollPacketState};
use serde_json::{json, Value as J};

use crate::fam::Fam;
use crate::io::{drive, guarded, RStep, ScriptedReader, ScriptedSink, ScriptedWriter, WStep};
use crate::model::*;

pub const MAX_POLLS: usize = 1 << 22;

pub fn body_bytes(buf: &[MaybeUninit<u8>]) -> Vec<u8> {
    // the decoder hands the body back only after it has been completely filled; C03 separately checks
    // (from the reader's own write log) that every cell was written
    buf.iter().map(|b| unsafe { b.assume_init() }).collect()
}

pub fn enc<F: Fam>(p: &F::Packet) -> (J, Option<Vec<u8>>) {
    match guarded(|| F::encode(p)) {
        Err(m) => (jpanic(&m), None),
        Ok(Err(e)) => (err3_to_json(&e), None),
        Ok(Ok(vb)) => {
            let b = vb.as_ref().to_vec();
            (json!({"k": "ok", "bytes": jbytes(&b)}), Some(b))
        }
    }
}

pub fn dec_block<F: Fam>(bytes: &[u8]) -> J {
    match guarded(|| F::decode(bytes)) {
        Err(m) => jpanic(&m),
        Ok(Ok(Some(p))) => jok(F::to_json(&p)),
        Ok(Ok(None)) => jincomplete(),
        Ok(Err(e)) => F::err_json(&e),
    }
}

/// async decoder on a reader that delivers `chunk` bytes per read and then ends
pub fn dec_async<F: Fam>(bytes: &[u8], chunk: usize) -> J {
    let r = guarded(|| {
        let mut rd = ScriptedReader::new(Arc::new(bytes.to_vec()), vec![], RStep::Data(chunk));
        rd.logging = false;
        let (o, _polls) = drive(F::decode_async(&mut rd), MAX_POLLS);
        (o, rd.pos)
    });
    match r {
        Err(m) => jpanic(&m),
        Ok((None, _)) => json!({"k": "spin"}),
        Ok((Some(Ok(p)), pos)) => json!({"k": "ok", "v": F::to_json(&p), "pos": pos}),
        Ok((Some(Err(e)), pos)) => {
            let mut j = F::err_json(&e);
            j["pos"] = J::from(pos);
            j
        }
    }
}

pub fn dec_poll<F: Fam>(bytes: &[u8], chunk: usize) -> J {
    let r = guarded(|| {
        let mut st: GenericPollPacketState<F::Header> = Default::default();
        let mut rd = ScriptedReader::new(Arc::new(bytes.to_vec()), vec![], RStep::Data(chunk));
        rd.logging = false;
        let (o, _polls) = drive(GenericPollPacket::new(&mut st, &mut rd), MAX_POLLS);
        (o, rd.pos)
    });
    match r {
        Err(m) => jpanic(&m),
        Ok((None, _)) => json!({"k": "spin"}),
        Ok((Some(Ok((total, body, p))), pos)) => {
            json!({"k": "ok", "v": F::to_json(&p), "total": total, "body": jbytes(&body_bytes(&body)), "pos": pos})
        }
        Ok((Some(Err(e)), pos)) => {
            let mut j = F::err_json(&e);
            j["pos"] = J::from(pos);
            j
        }
    }
}

pub fn header_block<F: Fam>(bytes: &[u8]) -> J {
    match guarded(|| F::header_decode(bytes)) {
        Err(m) => jpanic(&m),
        Ok(Ok(h)) => jok(F::header_json(&h)),
        Ok(Err(e)) => F::err_json(&e),
    }
}
pub fn header_async<F: Fam>(bytes: &[u8]) -> J {
    let r = guarded(|| {
        let mut rd = ScriptedReader::new(Arc::new(bytes.to_vec()), vec![], RStep::Data(1));
        rd.logging = false;
        drive(F::header_decode_async(&mut rd), 64).0
    });
    match r {
        Err(m) => jpanic(&m),
        Ok(None) => json!({"k": "spin"}),
        Ok(Some(Ok(h))) => jok(F::header_json(&h)),
        Ok(Some(Err(e))) => F::err_json(&e),
    }
}

pub fn encode_len<F: Fam>(p: &F::Packet) -> J {
    match guarded(|| F::encode_len(p)) {
        Err(m) => jpanic(&m),
        Ok(Ok(n)) => json!({"k": "ok", "val": n}),
        Ok(Err(e)) => F::err_json(&e),
    }
}

/// async encoder against a scripted sink
pub fn enc_async<F: Fam>(p: &F::Packet, script: Vec<WStep>, default: WStep, fail_at: Option<(usize, WStep)>) -> J {
    enc_async_on::<F>(p, script, default, fail_at, false, None)
}

/// the same against a sink that may take vectored writes and whose flush fails (with another kind) once the
/// injected write fault has been answered
pub fn enc_async_on<F: Fam>(p: &F::Packet, script: Vec<WStep>, default: WStep, fail_at: Option<(usize, WStep)>,
                            vectored: bool, flush_kind: Option<std::io::ErrorKind>) -> J {
    let r = guarded(|| {
        let mut w = ScriptedWriter::new(script, default);
        w.fail_at = fail_at;
        w.vectored = vectored;
        w.flush_kind_after_fault = flush_kind;
        let (o, polls) = drive(F::encode_async(p, &mut w), MAX_POLLS);
        (o, polls, w)
    });
    match r {
        Err(m) => jpanic(&m),
        Ok((o, polls, w)) => {
            let res = match o {
                None => json!({"k": "spin"}),
                Some(Ok(())) => json!({"k": "ok"}),
                Some(Err(e)) => F::err_json(&e),
            };
            let pend = w.log.iter().filter(|l| l.ans == "pending").count();
            // after every write the sink content is a prefix of the final content by construction of the
            // sink (append-only); what was offered is logged so the spec can check it against the encoding
            let offers: Vec<J> = w.log.iter().map(|l| json!([l.len, l.ans, l.n])).collect();
            json!({"res": res, "sink": jbytes(&w.sink), "polls": polls, "pendings": pend,
                   "writes": if offers.len() <= 64 { J::Array(offers) } else { json!([]) },
                   "nwrites": w.log.len()})
        }
    }
}

/// two async encodings IN FLIGHT on one thread: the first future is suspended by a not-ready sink after a partial
/// write, a second packet is encoded to completion into another sink (another connection served by the same task),
/// then the first is resumed.  Each sink must receive its own packet.
pub fn enc_interleaved<F: Fam>(a: &F::Packet, b: &F::Packet) -> J {
    let r = guarded(|| {
        let mut wa = ScriptedWriter::new(vec![WStep::Accept(5), WStep::Pending, WStep::Accept(3), WStep::Pending], WStep::Accept(usize::MAX));
        let mut wb = ScriptedWriter::new(vec![WStep::Accept(2), WStep::Pending], WStep::Accept(usize::MAX));
        let waker = crate::io::noop_waker();
        let mut cx = std::task::Context::from_waker(&waker);
        let (ra, rb);
        {
            let mut fa = Box::pin(F::encode_async(a, &mut wa));
            let mut first = None;
            if let std::task::Poll::Ready(x) = fa.as_mut().poll(&mut cx) {
                first = Some(x);
            }
            rb = drive(F::encode_async(b, &mut wb), MAX_POLLS).0;
            ra = match first {
                Some(x) => Some(x),
                None => {
                    let mut out = None;
                    for _ in 0..MAX_POLLS {
                        if let std::task::Poll::Ready(x) = fa.as_mut().poll(&mut cx) {
                            out = Some(x);
                            break;
                        }
                    }
                    out
                }
            };
        }
        (ra, rb, wa.sink, wb.sink)
    });
    let res = |o: Option<Result<(), F::Error>>| match o {
        None => json!({"k": "spin"}),
        Some(Ok(())) => json!({"k": "ok"}),
        Some(Err(e)) => F::err_json(&e),
    };
    match r {
        Err(m) => json!({"a": {"res": jpanic(&m), "sink": []}, "b": {"res": jpanic(&m), "sink": []}}),
        Ok((ra, rb, sa, sb)) => json!({"a": {"res": res(ra), "sink": jbytes(&sa)}, "b": {"res": res(rb), "sink": jbytes(&sb)}}),
    }
}

/// streaming `Encodable::encode` of the body into a blocking sink
pub fn enc_stream<F: Fam>(p: &F::Packet, chunk: usize, fail_at: Option<(usize, WStep)>) -> J {
    let r = guarded(|| {
        let mut s = ScriptedSink::new(chunk, fail_at);
        let o = F::body_encode(p, &mut s);
        (o, s)
    });
    match r {
        Err(m) => jpanic(&m),
        Ok((None, _)) => json!({"k": "nobody"}),
        Ok((Some((res, elen)), s)) => {
            let r = match res {
                Ok(()) => json!({"k": "ok"}),
                Err(e) => json!({"k": "err", "e": "IoError", "a": [io_kind_name(e.kind())]}),
            };
            json!({"k": "body", "res": r, "sink": jbytes(&s.sink), "encode_len": elen, "calls": s.calls.len()})
        }
    }
}

pub fn parts_json<F: Fam>(p: &F::Packet) -> J {
    match guarded(|| F::parts(p)) {
        Err(m) => json!([{"name": "panic", "written": 0, "reported": -1, "msg": m}]),
        Ok(v) => J::Array(
            v.iter()
                .map(|x| {
                    json!({"name": x.name, "written": x.written, "reported": x.reported,
                           "err": x.err.clone().unwrap_or_default()})
                })
                .collect(),
        ),
    }
}
