//! Seeded generators of rich packet values of both families (inside the codec's valid domain):
//! every optional field / property independently present or absent, every code, multi-byte text,
//! lengths on the 127/128, 16383/16384 and 65535 boundaries, long user-property lists.

use std::convert::TryFrom;
use std::sync::Arc;

use bytes::Bytes;
use mqtt_proto::{v3, v5, Pid, Protocol, QoS, QosPid, TopicFilter, TopicName};

use crate::model::*;
use crate::rng::Rng;

/// how much "big" material (fields of >= 126 bytes) a generator may still produce
pub struct Budget {
    pub big: u32,
    pub huge: u32,
}

const ALPHA: [&str; 16] = [
    "a", "b", "z", "0", " ", "/", "é", "ß", "€", "你", "😀", "-", "_", ".", "$", "x",
];

fn text_len(rng: &mut Rng, b: &mut Budget) -> usize {
    let r = rng.below(100);
    if r < 12 {
        0
    } else if r < 80 {
        rng.range(1, 12) as usize
    } else if r < 92 {
        rng.range(13, 60) as usize
    } else if b.huge > 0 && r >= 99 {
        b.huge -= 1;
        *rng.pick(&[16383usize, 16384, 65534, 65535, 40000])
    } else if b.big > 0 {
        b.big -= 1;
        *rng.pick(&[126usize, 127, 128, 129, 200, 255, 256, 300])
    } else {
        rng.range(1, 20) as usize
    }
}

/// random valid UTF-8 of exactly `n` bytes
pub fn text_of_len(rng: &mut Rng, n: usize, alpha: &[&str]) -> String {
    let mut s = String::with_capacity(n);
    while s.len() < n {
        let left = n - s.len();
        let c = *rng.pick(alpha);
        if c.len() <= left {
            s.push_str(c);
        } else {
            s.push('a');
        }
    }
    s
}

pub fn text(rng: &mut Rng, b: &mut Budget) -> String {
    let n = text_len(rng, b);
    let mut s = text_of_len(rng, n, &ALPHA);
    // MQTT leniency L8: control characters are carried through in non-topic strings
    if n > 2 && rng.chance(1, 40) && s.is_char_boundary(1) {
        s.replace_range(0..1, "\u{1}");
    }
    with_special_edge(rng, s, n)
}

/// characters that a "clean-up" would strip or alter, at the very start or end of a string (MQTT-1.5.4-3: a BOM is
/// data and must be kept; so are blanks, combining marks, directional marks): same byte length as before
pub fn with_special_edge(rng: &mut Rng, mut s: String, n: usize) -> String {
    if n >= 4 && rng.chance(1, 25) {
        let sp = *rng.pick(&["\u{feff}", "\u{200b}", " ", "\u{301}", "\u{2028}", "\u{85}", "\t"]);
        let at_start = rng.bool();
        // replace bytes at the edge by the special character, keeping the length and char boundaries
        let k = sp.len();
        if at_start {
            let mut cut = k;
            while cut < s.len() && !s.is_char_boundary(cut) {
                cut += 1;
            }
            if cut <= s.len() {
                let pad = "a".repeat(cut - k);
                s.replace_range(0..cut, &format!("{sp}{pad}"));
            }
        } else {
            let mut cut = s.len().saturating_sub(k);
            while cut > 0 && !s.is_char_boundary(cut) {
                cut -= 1;
            }
            let pad = "a".repeat(s.len() - cut - k);
            s.replace_range(cut.., &format!("{pad}{sp}"));
        }
    }
    debug_assert_eq!(s.len(), n);
    s
}
pub fn atext(rng: &mut Rng, b: &mut Budget) -> Arc<String> {
    Arc::new(text(rng, b))
}
pub fn bin(rng: &mut Rng, b: &mut Budget) -> Bytes {
    let n = text_len(rng, b);
    Bytes::from(rng.bytes(n))
}
pub fn topic_name(rng: &mut Rng, b: &mut Budget) -> TopicName {
    if rng.chance(1, 16) {
        // names that LOOK like something else: a topic NAME may start with "$share/" or "$SYS/" like any other text
        let s = *rng.pick(&["$share/g/t", "$share/g", "$share", "$SYS/broker/load", "$queue/jobs", "$", "/", "//", " "]);
        return TopicName::try_from(s.to_string()).expect("valid topic name");
    }
    let n = text_len(rng, b);
    let s = text_of_len(rng, n, &ALPHA);
    let s = with_special_edge(rng, s, n);
    TopicName::try_from(s).expect("generated topic name is valid")
}
pub fn topic_filter(rng: &mut Rng, b: &mut Budget) -> TopicFilter {
    let mut s = String::new();
    if rng.chance(1, 12) {
        // look-alikes of the shared-subscription prefix: ordinary (non-shared) filters
        s.push_str(*rng.pick(&["$sharex/", "$shared/", "$share你/", "$SHARE/", "$shar/", "$share", "$sharé/g/", "$queue/", "$local/", "$exclusive/", "$oshare/g/"]));
    } else if rng.chance(1, 4) {
        s.push_str("$share/");
        if rng.chance(1, 8) {
            // a share group that itself looks like a prefix ("$share/$share/t" is a legal shared filter)
            s.push_str(*rng.pick(&["$share", "$SYS", "$", "$shar"]));
        } else {
            let gl = rng.range(1, 5) as usize;
            let g = text_of_len(rng, gl, &["g", "é", "你", "x", "-"]);
            s.push_str(&g);
        }
        s.push('/');
    }
    let levels = rng.range(1, 5);
    let longlevel = text_len(rng, b);
    for i in 0..levels {
        if i > 0 {
            s.push('/');
        }
        let r = rng.below(10);
        if r < 2 {
            s.push('+');
        } else if r < 3 && i == levels - 1 {
            s.push('#');
        } else if r < 4 {
            // empty level
        } else if i == 0 && longlevel > 20 {
            s.push_str(&text_of_len(rng, longlevel.min(65000), &["a", "é", "b", "€"]));
        } else {
            let ll = rng.range(1, 6) as usize;
            s.push_str(&text_of_len(rng, ll, &["a", "é", "b", "€", "😀", "$", "x"]));
        }
    }
    if s.is_empty() {
        s.push('a');
    }
    TopicFilter::try_from(s.clone()).unwrap_or_else(|_| TopicFilter::try_from("a/b".to_string()).unwrap())
}
/// with some probability repeat an entry of a list right after itself, and/or again at the end (lists are
/// sequences: nothing may be "deduplicated")
pub fn with_repeats<T: Clone>(rng: &mut Rng, mut v: Vec<T>) -> Vec<T> {
    if !v.is_empty() && rng.chance(1, 5) {
        let i = rng.below(v.len() as u64) as usize;
        let x = v[i].clone();
        v.insert(i + 1, x.clone());
        if rng.chance(1, 3) {
            v.push(x);
        }
    }
    v
}
pub fn pid(rng: &mut Rng) -> Pid {
    let v = match rng.below(8) {
        0 => 1,
        1 => 65535,
        2 => 256,
        3 => 255,
        _ => rng.range(1, 65535) as u16,
    };
    Pid::try_from(v).unwrap()
}
pub fn qos(rng: &mut Rng) -> QoS {
    *rng.pick(&[QoS::Level0, QoS::Level1, QoS::Level2])
}
pub fn qospid(rng: &mut Rng) -> QosPid {
    match rng.below(3) {
        0 => QosPid::Level0,
        1 => QosPid::Level1(pid(rng)),
        _ => QosPid::Level2(pid(rng)),
    }
}
fn opt<T>(rng: &mut Rng, f: impl FnOnce(&mut Rng) -> T) -> Option<T> {
    if rng.bool() {
        Some(f(rng))
    } else {
        None
    }
}
fn u16v(rng: &mut Rng) -> u16 {
    *rng.pick(&[0u16, 1, 255, 256, 65535, 12345, 10])
}
fn u32v(rng: &mut Rng) -> u32 {
    match rng.below(6) {
        0 => 0,
        1 => u32::MAX,
        2 => 1 << 31,
        3 => 65536,
        _ => rng.next() as u32,
    }
}
fn payload(rng: &mut Rng, b: &mut Budget, utf8: bool) -> Bytes {
    if utf8 {
        Bytes::from(text(rng, b).into_bytes())
    } else {
        bin(rng, b)
    }
}

// ------------------------------------------------------------------------------------------------
pub const V3_TYPES: [&str; 14] = [
    "Connect", "Connack", "Publish", "Puback", "Pubrec", "Pubrel", "Pubcomp", "Subscribe", "Suback",
    "Unsubscribe", "Unsuback", "Pingreq", "Pingresp", "Disconnect",
];
pub const V5_TYPES: [&str; 15] = [
    "Connect", "Connack", "Publish", "Puback", "Pubrec", "Pubrel", "Pubcomp", "Subscribe", "Suback",
    "Unsubscribe", "Unsuback", "Pingreq", "Pingresp", "Disconnect", "Auth",
];

pub fn gen_v3(rng: &mut Rng, b: &mut Budget, typ: &str) -> v3::Packet {
    use v3::Packet as P;
    match typ {
        "Connect" => P::Connect(v3::Connect {
            protocol: *rng.pick(&[Protocol::V310, Protocol::V311]),
            clean_session: rng.bool(),
            keep_alive: u16v(rng),
            client_id: atext(rng, b),
            last_will: if rng.bool() {
                Some(v3::LastWill {
                    qos: qos(rng),
                    retain: rng.bool(),
                    topic_name: topic_name(rng, b),
                    message: bin(rng, b),
                })
            } else {
                None
            },
            username: if rng.bool() { Some(atext(rng, b)) } else { None },
            password: if rng.bool() { Some(bin(rng, b)) } else { None },
        }),
        "Connack" => P::Connack(v3::Connack {
            session_present: rng.bool(),
            code: *rng.pick(V3_CONNECT_RC),
        }),
        "Publish" => P::Publish(v3::Publish {
            dup: rng.bool(),
            retain: rng.bool(),
            qos_pid: qospid(rng),
            topic_name: topic_name(rng, b),
            payload: bin(rng, b),
        }),
        "Puback" => P::Puback(pid(rng)),
        "Pubrec" => P::Pubrec(pid(rng)),
        "Pubrel" => P::Pubrel(pid(rng)),
        "Pubcomp" => P::Pubcomp(pid(rng)),
        "Unsuback" => P::Unsuback(pid(rng)),
        "Subscribe" => {
            let n = list_len(rng);
            P::Subscribe(v3::Subscribe {
                pid: pid(rng),
                topics: { let v = (0..n.max(1)).map(|_| (topic_filter(rng, b), qos(rng))).collect(); with_repeats(rng, v) },
            })
        }
        "Suback" => {
            let n = list_len(rng);
            P::Suback(v3::Suback {
                pid: pid(rng),
                topics: (0..n).map(|_| *rng.pick(V3_SUB_RC)).collect(),
            })
        }
        "Unsubscribe" => {
            let n = list_len(rng);
            P::Unsubscribe(v3::Unsubscribe {
                pid: pid(rng),
                topics: { let v = (0..n.max(1)).map(|_| topic_filter(rng, b)).collect(); with_repeats(rng, v) },
            })
        }
        "Pingreq" => P::Pingreq,
        "Pingresp" => P::Pingresp,
        _ => P::Disconnect,
    }
}

fn list_len(rng: &mut Rng) -> usize {
    match rng.below(20) {
        0 => 0,
        1 => 40,
        2 => 130,
        _ => rng.range(1, 4) as usize,
    }
}

fn users(rng: &mut Rng, b: &mut Budget) -> Vec<v5::UserProperty> {
    // long lists are rare: the specification's property loop costs ~0.5 ms per property in TLC
    let n = match rng.below(200) {
        0 => 300,
        1..=4 => 30,
        5..=99 => 0,
        _ => rng.range(1, 3) as usize,
    };
    let mut v = Vec::with_capacity(n);
    for i in 0..n {
        if n > 10 {
            // long lists: short, repeating keys, order matters
            v.push(v5::UserProperty {
                name: Arc::new(["k", "k", "é", ""][i % 4].to_string()),
                value: Arc::new(format!("{}", i % 7)),
            });
        } else {
            v.push(v5::UserProperty {
                name: atext(rng, b),
                value: atext(rng, b),
            });
        }
    }
    v
}

fn vbi(rng: &mut Rng) -> v5::VarByteInt {
    let v = *rng.pick(&[0u32, 1, 127, 128, 16383, 16384, 2097151, 2097152, 268435455, 3344]);
    v5::VarByteInt::try_from(v).unwrap()
}

pub fn gen_v5(rng: &mut Rng, b: &mut Budget, typ: &str) -> v5::Packet {
    use v5::Packet as P;
    // presence mode: 0 = independent coin flips, 1 = everything present, 2 = nothing present
    let mode = match rng.below(10) {
        0 => 1,
        1 => 2,
        _ => 0,
    };
    macro_rules! o {
        ($e:expr) => {
            if mode == 1 || (mode == 0 && rng.bool()) {
                Some($e)
            } else {
                None
            }
        };
    }
    let us = |rng: &mut Rng, b: &mut Budget| if mode == 2 { vec![] } else { users(rng, b) };
    match typ {
        "Connect" => {
            let will = if rng.bool() {
                let utf8 = o!(rng.bool());
                Some(v5::LastWill {
                    qos: qos(rng),
                    retain: rng.bool(),
                    topic_name: topic_name(rng, b),
                    payload: payload(rng, b, utf8 == Some(true)),
                    properties: v5::WillProperties {
                        delay_interval: o!(u32v(rng)),
                        payload_is_utf8: utf8,
                        message_expiry_interval: o!(u32v(rng)),
                        content_type: o!(atext(rng, b)),
                        response_topic: o!(topic_name(rng, b)),
                        correlation_data: o!(bin(rng, b)),
                        user_properties: us(rng, b),
                    },
                })
            } else {
                None
            };
            P::Connect(v5::Connect {
                protocol: Protocol::V500,
                clean_start: rng.bool(),
                keep_alive: u16v(rng),
                properties: v5::ConnectProperties {
                    session_expiry_interval: o!(u32v(rng)),
                    receive_max: o!(u16v(rng)),
                    max_packet_size: o!(u32v(rng)),
                    topic_alias_max: o!(u16v(rng)),
                    request_response_info: o!(rng.bool()),
                    request_problem_info: o!(rng.bool()),
                    user_properties: us(rng, b),
                    auth_method: o!(atext(rng, b)),
                    auth_data: o!(bin(rng, b)),
                },
                client_id: atext(rng, b),
                last_will: will,
                username: if rng.bool() { Some(atext(rng, b)) } else { None },
                password: if rng.bool() { Some(bin(rng, b)) } else { None },
            })
        }
        "Connack" => P::Connack(v5::Connack {
            session_present: rng.bool(),
            reason_code: *rng.pick(V5_CONNECT_RC),
            properties: v5::ConnackProperties {
                session_expiry_interval: o!(u32v(rng)),
                receive_max: o!(u16v(rng)),
                max_qos: o!(*rng.pick(&[QoS::Level0, QoS::Level1])),
                retain_available: o!(rng.bool()),
                max_packet_size: o!(u32v(rng)),
                assigned_client_id: o!(atext(rng, b)),
                topic_alias_max: o!(u16v(rng)),
                reason_string: o!(atext(rng, b)),
                user_properties: us(rng, b),
                wildcard_subscription_available: o!(rng.bool()),
                subscription_id_available: o!(rng.bool()),
                shared_subscription_available: o!(rng.bool()),
                server_keep_alive: o!(u16v(rng)),
                response_info: o!(atext(rng, b)),
                server_reference: o!(atext(rng, b)),
                auth_method: o!(atext(rng, b)),
                auth_data: o!(bin(rng, b)),
            },
        }),
        "Publish" => {
            let utf8 = o!(rng.bool());
            P::Publish(v5::Publish {
                dup: rng.bool(),
                retain: rng.bool(),
                qos_pid: qospid(rng),
                topic_name: topic_name(rng, b),
                payload: payload(rng, b, utf8 == Some(true)),
                properties: v5::PublishProperties {
                    payload_is_utf8: utf8,
                    message_expiry_interval: o!(u32v(rng)),
                    topic_alias: o!(u16v(rng)),
                    response_topic: o!(topic_name(rng, b)),
                    correlation_data: o!(bin(rng, b)),
                    user_properties: us(rng, b),
                    subscription_id: o!(vbi(rng)),
                    content_type: o!(atext(rng, b)),
                },
            })
        }
        "Puback" => P::Puback(v5::Puback {
            pid: pid(rng),
            reason_code: *rng.pick(V5_PUBACK_RC),
            properties: v5::PubackProperties {
                reason_string: o!(atext(rng, b)),
                user_properties: us(rng, b),
            },
        }),
        "Pubrec" => P::Pubrec(v5::Pubrec {
            pid: pid(rng),
            reason_code: *rng.pick(V5_PUBREC_RC),
            properties: v5::PubrecProperties {
                reason_string: o!(atext(rng, b)),
                user_properties: us(rng, b),
            },
        }),
        "Pubrel" => P::Pubrel(v5::Pubrel {
            pid: pid(rng),
            reason_code: *rng.pick(V5_PUBREL_RC),
            properties: v5::PubrelProperties {
                reason_string: o!(atext(rng, b)),
                user_properties: us(rng, b),
            },
        }),
        "Pubcomp" => P::Pubcomp(v5::Pubcomp {
            pid: pid(rng),
            reason_code: *rng.pick(V5_PUBCOMP_RC),
            properties: v5::PubcompProperties {
                reason_string: o!(atext(rng, b)),
                user_properties: us(rng, b),
            },
        }),
        "Subscribe" => {
            let n = list_len(rng).max(1);
            P::Subscribe(v5::Subscribe {
                pid: pid(rng),
                properties: v5::SubscribeProperties {
                    subscription_id: o!(vbi(rng)),
                    user_properties: us(rng, b),
                },
                topics: {
                    let v = (0..n)
                        .map(|_| {
                            (
                                topic_filter(rng, b),
                                v5::SubscriptionOptions {
                                    max_qos: qos(rng),
                                    no_local: rng.bool(),
                                    retain_as_published: rng.bool(),
                                    retain_handling: *rng.pick(V5_RH),
                                },
                            )
                        })
                        .collect();
                    with_repeats(rng, v)
                },
            })
        }
        "Suback" => {
            let n = list_len(rng);
            P::Suback(v5::Suback {
                pid: pid(rng),
                properties: v5::SubackProperties {
                    reason_string: o!(atext(rng, b)),
                    user_properties: us(rng, b),
                },
                topics: (0..n).map(|_| *rng.pick(V5_SUB_RC)).collect(),
            })
        }
        "Unsubscribe" => {
            let n = list_len(rng).max(1);
            P::Unsubscribe(v5::Unsubscribe {
                pid: pid(rng),
                properties: v5::UnsubscribeProperties {
                    user_properties: us(rng, b),
                },
                topics: { let v = (0..n).map(|_| topic_filter(rng, b)).collect(); with_repeats(rng, v) },
            })
        }
        "Unsuback" => {
            let n = list_len(rng);
            P::Unsuback(v5::Unsuback {
                pid: pid(rng),
                properties: v5::UnsubackProperties {
                    reason_string: o!(atext(rng, b)),
                    user_properties: us(rng, b),
                },
                topics: (0..n).map(|_| *rng.pick(V5_UNSUB_RC)).collect(),
            })
        }
        "Pingreq" => P::Pingreq,
        "Pingresp" => P::Pingresp,
        "Disconnect" => P::Disconnect(v5::Disconnect {
            reason_code: *rng.pick(V5_DISCONNECT_RC),
            properties: v5::DisconnectProperties {
                session_expiry_interval: o!(u32v(rng)),
                reason_string: o!(atext(rng, b)),
                user_properties: us(rng, b),
                server_reference: o!(atext(rng, b)),
            },
        }),
        _ => P::Auth(v5::Auth {
            reason_code: *rng.pick(V5_AUTH_RC),
            properties: v5::AuthProperties {
                auth_method: o!(atext(rng, b)),
                auth_data: o!(bin(rng, b)),
                reason_string: o!(atext(rng, b)),
                user_properties: us(rng, b),
            },
        }),
    }
}

/// family-generic entry
pub trait GenFam: crate::fam::Fam {
    fn types() -> &'static [&'static str];
    fn gen(rng: &mut Rng, b: &mut Budget, typ: &str) -> Self::Packet;
}
impl GenFam for crate::fam::V3 {
    fn types() -> &'static [&'static str] {
        &V3_TYPES
    }
    fn gen(rng: &mut Rng, b: &mut Budget, typ: &str) -> Self::Packet {
        gen_v3(rng, b, typ)
    }
}
impl GenFam for crate::fam::V5 {
    fn types() -> &'static [&'static str] {
        &V5_TYPES
    }
    fn gen(rng: &mut Rng, b: &mut Budget, typ: &str) -> Self::Packet {
        gen_v5(rng, b, typ)
    }
}
