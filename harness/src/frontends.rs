//! Drivers of the front-end (transition-system) properties: C03, C05, C06, C07, C08, C14.

use std::future::Future;
use std::sync::Arc;

use mqtt_proto::{GenericPollPacket, GenericPollPacketState};
use serde_json::{json, Value as J};

use crate::codec::*;
use crate::fam::{Fam, V3, V5};
use crate::gen::{Budget, GenFam};
use crate::io::*;
use crate::model::*;
use crate::out::Out;
use crate::rng::Rng;

fn short(j: &J) -> String {
    match j["k"].as_str() {
        Some("ok") => "ok".to_string(),
        Some("incomplete") => "incomplete".to_string(),
        Some("err") => {
            if j["eof"].as_bool() == Some(true) {
                "eof".to_string()
            } else {
                format!("err:{}", j["e"].as_str().unwrap_or("?"))
            }
        }
        Some(k) => k.to_string(),
        None => "?".to_string(),
    }
}

/// reader that delivers the first `k` bytes (in `chunk`-sized reads) and then reports end of stream
fn cut_reader(bytes: &[u8], k: usize, chunk: usize) -> ScriptedReader {
    let mut rd = ScriptedReader::new(Arc::new(bytes[..k].to_vec()), vec![], RStep::Data(chunk));
    rd.logging = false;
    rd
}

// ------------------------------------------------------------------------------------------------
// C07
pub fn cut_events<F: Fam>(out: &mut Out, rng: &mut Rng, p: &F::Packet, all: bool) {
    let (e, bytes) = enc::<F>(p);
    let mut ev = json!({"ev": "Cut", "fam": F::NAME, "packet": F::to_json(p), "enc": e});
    if let Some(b) = bytes {
        let n = b.len();
        let mut ks: Vec<usize> = if all || n <= 400 {
            (0..n).collect()
        } else {
            let mut v: Vec<usize> = (0..60).collect();
            v.extend(n - 40..n);
            for _ in 0..100 {
                v.push(rng.below(n as u64) as usize);
            }
            v.sort();
            v.dedup();
            v
        };
        ks.retain(|k| *k < n);
        ev["all"] = J::from(ks.len() == n);
        ev["len"] = J::from(n);
        let mut cuts = Vec::with_capacity(ks.len());
        for k in ks {
            let chunk = if rng.bool() { usize::MAX } else { 1 + rng.below(3) as usize };
            let blk = dec_block::<F>(&b[..k]);
            let asy = dec_async::<F>(&b[..k], chunk);
            let pol = dec_poll::<F>(&b[..k], chunk);
            cuts.push(json!([k, short(&blk), short(&asy), short(&pol)]));
        }
        ev["cuts"] = J::Array(cuts);
        // the encoding followed by arbitrary further bytes
        let sl = rng.range(1, 12) as usize;
        let sfx = match rng.below(4) {
            0 => vec![0xFFu8; sl],
            1 => b[..sl.min(n)].to_vec(),
            _ => rng.bytes(sl),
        };
        let mut ext = b.clone();
        ext.extend_from_slice(&sfx);
        ev["suffix"] = jbytes(&sfx);
        ev["block_sfx"] = dec_block::<F>(&ext);
        ev["async_sfx"] = dec_async::<F>(&ext, usize::MAX);
    }
    out.ev(ev);
}

/// the same for a valid encoding that the library's own encoder never produces (another MQTT stack's legal spelling:
/// short forms spelled out, another property order, a padded remaining length or property length): every strict prefix
/// is incomplete
fn cut_spelled<F: Fam>(out: &mut Out, rng: &mut Rng, p: &F::Packet) {
    let Some(e) = enc::<F>(p).1 else { return };
    if e.len() > 300 {
        return;
    }
    let Some(fr) = crate::tokens::tokenize(F::NAME, &e) else { return };
    let mut variants: Vec<(String, Vec<u8>)> = crate::tokens::spellings(&fr);
    // remaining length padded to 2, 3 and 4 bytes
    let body = &e[1 + crate::topic::varint(e.len()).len().min(4).min(e.len() - 1)..];
    let _ = body;
    let mut hd = 1usize;
    while e[hd] & 0x80 != 0 {
        hd += 1;
    }
    hd += 1;
    let rl = e.len() - hd;
    for w in 2..=4usize {
        let mut l = crate::topic::varint(rl);
        if l.len() >= w {
            continue;
        }
        while l.len() < w {
            let last = l.len() - 1;
            l[last] |= 0x80;
            l.push(0);
        }
        let mut v = vec![e[0]];
        v.extend(l);
        v.extend_from_slice(&e[hd..]);
        variants.push((format!("remaining length in {w} bytes"), v));
    }
    for v in crate::tokens::nonminimal_proplen(&fr) {
        variants.push(("padded property length".to_string(), v));
    }
    for (name, b) in variants {
        let full = dec_block::<F>(&b);
        let n = b.len();
        let mut cuts = Vec::with_capacity(n);
        for k in 0..n {
            let chunk = if rng.bool() { usize::MAX } else { 1 + rng.below(3) as usize };
            cuts.push(json!([k, short(&dec_block::<F>(&b[..k])), short(&dec_async::<F>(&b[..k], chunk)), short(&dec_poll::<F>(&b[..k], chunk))]));
        }
        out.ev(json!({"ev": "CutSpelled", "fam": F::NAME, "spelling": name, "bytes": jbytes(&b), "len": n,
                      "full_block": full, "full_async": dec_async::<F>(&b, usize::MAX), "cuts": cuts}));
    }
}

pub fn record_cut(out: &mut Out, tier: &str, seed: u64) {
    let n = if tier == "thorough" { 12000 } else { 500 };
    let mut rng = Rng::new(seed ^ 0xC07);
    let mut b = if tier == "thorough" { Budget { big: 400, huge: 10 } } else { Budget { big: 30, huge: 1 } };
    let t3 = V3::types();
    for i in 0..n {
        let p = V3::gen(&mut rng, &mut b, t3[i % t3.len()]);
        cut_events::<V3>(out, &mut rng, &p, false);
        if i % 4 == 0 {
            cut_spelled::<V3>(out, &mut rng, &p);
        }
    }
    let t5 = V5::types();
    for i in 0..2 * n {
        let p = V5::gen(&mut rng, &mut b, t5[i % t5.len()]);
        cut_events::<V5>(out, &mut rng, &p, false);
        if i % 4 == 0 {
            cut_spelled::<V5>(out, &mut rng, &p);
        }
    }
    // deterministic large shapes: fields of the maximal size, payloads on both sides of 64 KiB and of 1 MiB
    // (a reader that switches strategy by size), cut at sampled positions incl. inside the payload
    // remaining length / property length on and around the width boundaries (e.g. a remaining length of exactly 128:
    // first length byte 0x80), every cut
    for p in crate::wire::boundary_packets_v3("core") {
        cut_events::<V3>(out, &mut rng, &p, false);
    }
    for p in crate::wire::boundary_packets_v5("core") {
        cut_events::<V5>(out, &mut rng, &p, false);
    }
    for p in crate::wire::max_field_packets_v3() {
        cut_events::<V3>(out, &mut rng, &p, false);
    }
    for p in crate::wire::max_field_packets_v5() {
        cut_events::<V5>(out, &mut rng, &p, false);
    }
    let mut sizes = vec![4095usize, 4096, 4097, 8192, 8193, 65535, 65536, 65537, 70000, 131073];
    if tier == "thorough" {
        sizes.extend([262143usize, 262145]);
    }
    for n in sizes {
        cut_events::<V3>(out, &mut rng, &crate::wire::publish_v3(3, n, true), false);
        cut_events::<V5>(out, &mut rng, &crate::wire::publish_v5(3, n), false);
    }
}

// ------------------------------------------------------------------------------------------------
// inputs: structure-aware corruptions of valid encodings, and plain random bytes
pub fn corrupt(rng: &mut Rng, b: &[u8]) -> Vec<u8> {
    let mut v = b.to_vec();
    let n = rng.range(1, 3);
    for _ in 0..n {
        if v.is_empty() {
            v.push(rng.byte());
            continue;
        }
        let i = rng.below(v.len() as u64) as usize;
        match rng.below(12) {
            0 | 1 => v[i] ^= 1 << rng.below(8),
            2 => v[i] = rng.byte(),
            3 => v[i] = *rng.pick(&[0u8, 1, 2, 3, 0x7F, 0x80, 0xFF, 0x0B, 0x26, 0x24]),
            4 => {
                v.truncate(i);
            }
            5 => {
                let x = rng.bytes_range(1, 4);
                v.extend(x);
            }
            6 => {
                v.insert(i, rng.byte());
            }
            7 => {
                v.remove(i);
            }
            8 => {
                // edit the remaining length
                if v.len() >= 2 {
                    v[1] = *rng.pick(&[0u8, 1, 2, 3, 0x7F, 0x80, 0xFF]);
                    if rng.chance(1, 4) {
                        v.splice(1..2, [0xFFu8, 0xFF, 0xFF, 0x7F]);
                    }
                }
            }
            9 => {
                // splice the head of another copy
                let j = rng.below(v.len() as u64) as usize;
                let head = b[..j.min(b.len())].to_vec();
                v.splice(i..i, head);
            }
            10 => {
                // re-frame: make the declared remaining length match the body again
                if v.len() >= 2 && v[1] < 128 {
                    let body = v[2..].to_vec();
                    v = crate::topic::frame(v[0], &body);
                }
            }
            _ => {
                let j = rng.below(v.len() as u64) as usize;
                v.swap(i, j);
            }
        }
    }
    v
}

fn header_guided(rng: &mut Rng) -> Vec<u8> {
    let t = rng.range(0, 15) as u8;
    let fl = if rng.chance(3, 4) {
        if t == 6 || t == 8 || t == 10 { 2 } else if t == 3 { rng.below(16) as u8 } else { 0 }
    } else {
        rng.below(16) as u8
    };
    let n = rng.below(8) as usize;
    let mut body = rng.bytes(n);
    if rng.bool() && n >= 2 {
        body[0] = 0;
        body[1] = rng.below(4) as u8;
    }
    let mut v = vec![t << 4 | fl];
    let rl = if rng.chance(3, 4) { n } else { rng.below(12) as usize };
    v.extend(crate::topic::varint(rl));
    v.extend(body);
    v
}

pub fn input_for<F: GenFam>(rng: &mut Rng, b: &mut Budget, i: usize) -> Vec<u8> {
    let types = F::types();
    match i % 10 {
        0 => header_guided(rng),
        1 => rng.bytes_range(0, 14),
        2 | 3 => {
            // valid encoding + suffix; every third one with a padded (non-minimal) remaining length
            let p = F::gen(rng, b, types[i % types.len()]);
            let mut v = enc::<F>(&p).1.unwrap_or_default();
            if i % 3 == 0 {
                if let Some(fr) = crate::tokens::tokenize(F::NAME, &v) {
                    v = crate::tokens::nonminimal_rl(&fr);
                }
            }
            if rng.bool() {
                v.extend(rng.bytes_range(1, 6));
            }
            v
        }
        _ => {
            let p = F::gen(rng, b, types[i % types.len()]);
            let v = enc::<F>(&p).1.unwrap_or_default();
            corrupt(rng, &v)
        }
    }
}

// ------------------------------------------------------------------------------------------------
// C06 (and the inputs of C03)
/// the poll decoder under a schedule with Pendings (future kept or dropped), result only
pub fn dec_poll_sched<F: Fam>(bytes: &[u8], sched_seed: u64) -> J {
    let mut rng = Rng::new(sched_seed);
    let stream = Arc::new(bytes.to_vec());
    let (script, dflt) = random_schedule(&mut rng, bytes.len());
    let mut st: GenericPollPacketState<F::Header> = Default::default();
    let mut drng = Rng::new(sched_seed ^ 77);
    let mut dropf = || drng.bool();
    let (obs, pos) = poll_run::<F>(&stream, script, dflt, &mut dropf, &mut st, 0);
    let mut r = obs.result;
    r["pos"] = J::from(pos);
    r
}

/// the poll decoder with a Pending before every read of at most `chunk` bytes, the future dropped at every Pending
pub fn dec_poll_pending<F: Fam>(bytes: &[u8], chunk: usize) -> J {
    let stream = Arc::new(bytes.to_vec());
    let steps = if chunk == 1 { bytes.len() + 2 } else { 12 };
    let script: Vec<RStep> = (0..steps).flat_map(|_| [RStep::Pending, RStep::Data(chunk)]).collect();
    let mut st: GenericPollPacketState<F::Header> = Default::default();
    let mut dropf = || true;
    let (obs, pos) = poll_run::<F>(&stream, script, RStep::Data(usize::MAX), &mut dropf, &mut st, 0);
    let mut r = obs.result;
    r["pos"] = J::from(pos);
    r
}

pub fn dec3_event<F: Fam>(out: &mut Out, bytes: &[u8]) {
    let sched = bytes.iter().fold(0x9E37u64, |a, b| a.wrapping_mul(31).wrapping_add(*b as u64));
    out.ev(json!({"ev": "Dec3", "fam": F::NAME, "bytes": jbytes(bytes),
                  "block": dec_block::<F>(bytes), "async": dec_async::<F>(bytes, usize::MAX),
                  "poll": dec_poll::<F>(bytes, usize::MAX),
                  "poll_sched": dec_poll_sched::<F>(bytes, sched),
                  "async_1": dec_async::<F>(bytes, 1),
                  "hdr_block": header_block::<F>(bytes), "hdr_async": header_async::<F>(bytes)}));
}

fn kind5(j: &J) -> &'static str {
    match j["k"].as_str() {
        Some("ok") => "ok",
        Some("incomplete") => "incomplete",
        Some("err") => {
            if j["eof"].as_bool() == Some(true) {
                "eof"
            } else {
                "err"
            }
        }
        Some("panic") => "panic",
        Some("spin") => "spin",
        _ => "other",
    }
}

/// all byte strings prefix ++ <<b>> for b in 0..=255 through the five entry points of a family
fn short_rows<F: Fam>(out: &mut Out, prefix: &[u8]) {
    let mut rows = Vec::with_capacity(256);
    let mut s = prefix.to_vec();
    s.push(0);
    let last = s.len() - 1;
    for b in 0..=255u8 {
        s[last] = b;
        rows.push(json!([b, kind5(&dec_block::<F>(&s)), kind5(&dec_async::<F>(&s, 1)), kind5(&dec_poll::<F>(&s, 1)),
                         kind5(&header_block::<F>(&s)), kind5(&header_async::<F>(&s))]));
    }
    out.ev(json!({"ev": "DecShort", "fam": F::NAME, "prefix": jbytes(prefix), "rows": rows}));
}

/// C03: exhaustively all strings of up to 2 bytes (thorough: 3 bytes)
pub fn record_short(out: &mut Out, tier: &str) {
    dec3_event::<V3>(out, &[]);
    dec3_event::<V5>(out, &[]);
    short_rows::<V3>(out, &[]);
    short_rows::<V5>(out, &[]);
    for b0 in 0..=255u8 {
        short_rows::<V3>(out, &[b0]);
        short_rows::<V5>(out, &[b0]);
        if tier == "thorough" {
            for b1 in 0..=255u8 {
                short_rows::<V3>(out, &[b0, b1]);
                short_rows::<V5>(out, &[b0, b1]);
            }
        }
    }
}

/// C03, memory-safety clause: a small sample of the same inputs, meant to be EXECUTED UNDER MIRI (the
/// interpreter turns undefined behaviour into an aborted run: no End sentinel, non-zero exit)
pub fn record_miri(out: &mut Out, seed: u64, part: &str) {
    let mut rng = Rng::new(seed ^ 0x3121);
    let mut b = Budget { big: 2, huge: 0 };
    if part == "dec3" {
        for i in 0..40 {
            let v = input_for::<V3>(&mut rng, &mut b, i);
            dec3_event::<V3>(out, &v);
            let v = input_for::<V5>(&mut rng, &mut b, i);
            dec3_event::<V5>(out, &v);
        }
        return;
    }
    let mut run = 0u64;
    for i in 0..15 {
        run += 1;
        let v = wide_frame::<V3>(&mut rng, &mut b, i);
        if v.len() < 400 {
            poll_schedule_run::<V3>(out, &mut rng, run, &v);
        }
        run += 1;
        let v = wide_frame::<V5>(&mut rng, &mut b, i);
        if v.len() < 400 {
            poll_schedule_run::<V5>(out, &mut rng, run, &v);
        }
    }
}

/// systematic length-field edits of small valid packets: EVERY declared remaining length from 0 to body + 3
/// over the unchanged bytes, and every inner 2-byte length prefix / property length moved by -1, +1 and to 0
fn length_edit_inputs<F: GenFam>(rng: &mut Rng, npackets: usize, f: &mut dyn FnMut(&[u8])) {
    let mut b = Budget { big: 0, huge: 0 };
    let types = F::types();
    let mut done = 0;
    let mut i = 0;
    while done < npackets && i < npackets * 20 {
        i += 1;
        let p = F::gen(rng, &mut b, types[i % types.len()]);
        let e = match enc::<F>(&p).1 {
            Some(e) if e.len() <= 70 && e.len() >= 3 => e,
            _ => continue,
        };
        done += 1;
        let body = &e[2..];
        for k in 0..=(body.len() + 3) {
            let mut v = vec![e[0]];
            v.extend(crate::topic::varint(k));
            v.extend_from_slice(body);
            f(&v);
        }
        if let Some(fr) = crate::tokens::tokenize(F::NAME, &e) {
            for (idx, seg) in fr.body.iter().enumerate() {
                match seg {
                    crate::tokens::Seg::Field { content, .. } => {
                        // the field's own length prefix edited, bytes unchanged
                        let mut raw = Vec::new();
                        for (j, s2) in fr.body.iter().enumerate() {
                            let mut one = crate::tokens::Frame { fam: fr.fam, typ: fr.typ.clone(), ctl: fr.ctl, body: vec![s2.clone()], rl_override: None }.bytes();
                            let seg_bytes = one.split_off(2);
                            if j == idx {
                                for d in [-1i64, 1, -(content.len() as i64)] {
                                    let nl = (content.len() as i64 + d).max(0) as usize;
                                    let mut alt = raw.clone();
                                    alt.push((nl >> 8) as u8);
                                    alt.push((nl & 255) as u8);
                                    alt.extend_from_slice(content);
                                    for s3 in fr.body.iter().skip(idx + 1) {
                                        let mut o = crate::tokens::Frame { fam: fr.fam, typ: fr.typ.clone(), ctl: fr.ctl, body: vec![s3.clone()], rl_override: None }.bytes();
                                        alt.extend(o.split_off(2));
                                    }
                                    f(&crate::topic::frame(fr.ctl, &alt));
                                }
                            }
                            raw.extend(seg_bytes);
                        }
                    }
                    crate::tokens::Seg::Props { .. } => {
                        for d in [-1i64, 1, 2] {
                            let mut g = fr.clone();
                            let mut inner = Vec::new();
                            if let crate::tokens::Seg::Props { items, .. } = seg {
                                for it in items {
                                    for s2 in it {
                                        let mut o = crate::tokens::Frame { fam: fr.fam, typ: fr.typ.clone(), ctl: fr.ctl, body: vec![s2.clone()], rl_override: None }.bytes();
                                        inner.extend(o.split_off(2));
                                    }
                                }
                            }
                            let nl = (inner.len() as i64 + d).max(0) as usize;
                            if let crate::tokens::Seg::Props { len_override, .. } = &mut g.body[idx] {
                                *len_override = Some(crate::topic::varint(nl));
                            }
                            f(&g.bytes());
                        }
                    }
                    _ => {}
                }
            }
        }
    }
}

/// the frame with its remaining length changed by `delta` and the body padded with a zero byte / cut accordingly
fn reframe(b: &[u8], delta: i64) -> Option<Vec<u8>> {
    if b.len() < 2 {
        return None;
    }
    let mut w = 0usize;
    let mut rl = 0usize;
    loop {
        let x = *b.get(1 + w)?;
        rl |= ((x & 0x7F) as usize) << (7 * w);
        w += 1;
        if x & 0x80 == 0 {
            break;
        }
        if w == 4 {
            return None;
        }
    }
    let body = &b[(1 + w).min(b.len())..];
    if body.len() != rl || (delta < 0 && rl == 0) {
        return None;
    }
    let mut v = vec![b[0]];
    v.extend(crate::topic::varint((rl as i64 + delta) as usize));
    if delta > 0 {
        v.extend_from_slice(body);
        v.push(0);
    } else {
        v.extend_from_slice(&body[..body.len() - 1]);
    }
    Some(v)
}

fn catalogue_inputs<F: GenFam>(rng: &mut Rng, npackets: usize, f: &mut dyn FnMut(&[u8])) {
    let mut b = Budget { big: 0, huge: 0 };
    let types = F::types();
    for i in 0..npackets {
        let p = F::gen(rng, &mut b, types[i % types.len()]);
        if let Some(e) = enc::<F>(&p).1 {
            if e.len() > 400 {
                continue;
            }
            if let Some(fr) = crate::tokens::tokenize(F::NAME, &e) {
                for m in crate::tokens::catalogue(&fr, rng) {
                    f(&m.bytes);
                    // TWO faults at once: the malformed frame re-framed one byte longer / shorter (which of the two
                    // errors a front-end reports is part of C06), and followed by a few bytes of the next packet
                    // (an inner length past the frame then reads into them)
                    if let Some(v) = reframe(&m.bytes, 1) {
                        f(&v);
                    }
                    if let Some(v) = reframe(&m.bytes, -1) {
                        f(&v);
                    }
                    let mut v = m.bytes.clone();
                    v.push(0xC0);
                    f(&v);
                    v.push(0x00);
                    f(&v);
                }
            }
        }
    }
}

/// declared lengths far beyond the usual boundary packets, complete and cut short, through the three front-ends:
/// only the KIND of outcome is recorded (the inputs are too large to travel as JSON)
fn big_dec_events<F: Fam>(out: &mut Out, tier: &str) {
    let mut sizes = vec![4194303usize, 4194304, 4194305, 8388609, 16777217];
    if tier == "thorough" {
        sizes.extend([33554433usize, 268435455]);
    }
    for rl in sizes {
        let mut body = vec![0u8, 1, b'a'];
        if F::NAME == "v5" {
            body.push(0);
        }
        let hdr_fields = body.len();
        body.resize(rl, 0x55);
        let full = crate::topic::frame(0x30, &body);
        let w = full.len() - rl;
        for (label, input, chunk) in [("complete", &full[..], (1usize << 20) + 7), ("cut-after-2-body-bytes", &full[..w + hdr_fields + 2], 1usize),
                                      ("cut-in-the-middle", &full[..w + rl / 2], (1usize << 22) - 1)] {
            // no JSON of the packets: outcome kinds, and equality of the decoded values computed here
            let arc = Arc::new(input.to_vec());
            fn kind_of_err<F: Fam>(e: &F::Error) -> &'static str {
                if F::err_json(e)["eof"].as_bool() == Some(true) { "eof" } else { "err" }
            }
            let (kb, pb) = match guarded(|| F::decode(input)) {
                Err(_) => ("panic", None),
                Ok(Ok(Some(p))) => ("ok", Some(p)),
                Ok(Ok(None)) => ("incomplete", None),
                Ok(Err(e)) => (kind_of_err::<F>(&e), None),
            };
            let ra = guarded(|| {
                let mut rd = ScriptedReader::new(arc.clone(), vec![], RStep::Data(chunk));
                rd.logging = false;
                let (o, _) = drive(F::decode_async(&mut rd), MAX_POLLS);
                (o, rd.pos)
            });
            let (ka, pa, pos) = match ra {
                Err(_) => ("panic", None, 0),
                Ok((None, p)) => ("spin", None, p),
                Ok((Some(Ok(p)), q)) => ("ok", Some(p), q),
                Ok((Some(Err(e)), q)) => (kind_of_err::<F>(&e), None, q),
            };
            let poll_with = |pending: bool| {
                let r = guarded(|| {
                    let mut st: GenericPollPacketState<F::Header> = Default::default();
                    let script: Vec<RStep> = if pending { (0..64).flat_map(|_| [RStep::Pending, RStep::Data(chunk)]).collect() } else { vec![] };
                    let mut rd = ScriptedReader::new(arc.clone(), script, RStep::Data(chunk));
                    rd.logging = false;
                    let (o, _) = drive(GenericPollPacket::new(&mut st, &mut rd), MAX_POLLS);
                    o
                });
                match r {
                    Err(_) => ("panic", None, 0usize),
                    Ok(None) => ("spin", None, 0),
                    Ok(Some(Ok((total, _body, p)))) => ("ok", Some(p), total),
                    Ok(Some(Err(e))) => (kind_of_err::<F>(&e), None, 0),
                }
            };
            let (kp, pp, total) = poll_with(false);
            let (kq, pq, _t2) = poll_with(true);
            out.ev(json!({"ev": "BigDec", "fam": F::NAME, "rl": rl, "input": label, "len": input.len(), "complete": label == "complete",
                          "kinds": [kb, ka, kp, kq], "same_packet": pb == pa && pa == pp && pp == pq,
                          "total": total, "pos": pos}));
        }
    }
}

pub fn record_dec3(out: &mut Out, tier: &str, seed: u64) {
    big_dec_events::<V3>(out, tier);
    big_dec_events::<V5>(out, tier);
    // every valid first byte x remaining length 0..4 x every body over {00, 01, 02, 80, FF}: all the tiny frames, with
    // any number of faults at once (e.g. 82 02 00 00: no filter AND packet identifier 0)
    {
        let alpha = [0x00u8, 0x01, 0x02, 0x80, 0xFF];
        let ctls = [0x10u8, 0x20, 0x30, 0x32, 0x3D, 0x40, 0x50, 0x62, 0x70, 0x82, 0x90, 0xA2, 0xB0, 0xC0, 0xD0, 0xE0, 0xF0];
        for ctl in ctls {
            for rl in 0..=4usize {
                let mut idx = vec![0usize; rl];
                loop {
                    let mut f = vec![ctl, rl as u8];
                    f.extend(idx.iter().map(|i| alpha[*i]));
                    dec3_event::<V3>(out, &f);
                    dec3_event::<V5>(out, &f);
                    let mut k = 0;
                    while k < rl {
                        idx[k] += 1;
                        if idx[k] < alpha.len() {
                            break;
                        }
                        idx[k] = 0;
                        k += 1;
                    }
                    if k == rl {
                        break;
                    }
                }
            }
        }
    }
    // a malformed frame declared shorter at EVERY cut (a runt CONNECT with a bad level, ...): small packets only
    {
        fn runts<F: GenFam>(out: &mut Out, rng: &mut Rng) {
            let mut bb = Budget { big: 0, huge: 0 };
            for t in F::types() {
                for _ in 0..2 {
                    let p = F::gen(rng, &mut bb, t);
                    let Some(e) = enc::<F>(&p).1 else { continue };
                    if e.len() > 48 {
                        continue;
                    }
                    let Some(fr) = crate::tokens::tokenize(F::NAME, &e) else { continue };
                    for m in crate::tokens::catalogue(&fr, rng) {
                        let b = &m.bytes;
                        if b.len() < 3 || b[1] & 0x80 != 0 || b[1] as usize != b.len() - 2 {
                            continue;
                        }
                        for k in 1..b.len() - 2 {
                            let mut v = vec![b[0], k as u8];
                            v.extend_from_slice(&b[2..2 + k]);
                            dec3_event::<F>(out, &v);
                        }
                    }
                }
            }
        }
        let mut rng0 = Rng::new(seed ^ 0xD3C3);
        runts::<V3>(out, &mut rng0);
        runts::<V5>(out, &mut rng0);
    }
    // valid frames with extreme values and the large-class frames, spelled by the harness (not by the library's encoder)
    crate::accept::large_class_for("v3", &mut |_m, b, _bad| dec3_event::<V3>(out, b));
    crate::accept::large_class_for("v5", &mut |_m, b, _bad| dec3_event::<V5>(out, b));
    let n = if tier == "thorough" { 150000 } else { 5000 };
    let mut rng = Rng::new(seed ^ 0xC06);
    let mut b = Budget { big: 60, huge: 0 };
    let npk = if tier == "thorough" { 1500 } else { 45 };
    length_edit_inputs::<V3>(&mut rng, npk, &mut |v| dec3_event::<V3>(out, v));
    length_edit_inputs::<V5>(&mut rng, 2 * npk, &mut |v| dec3_event::<V5>(out, v));
    // every catalogue malformation (DESIGN.md Appendix B) of a few packets of every type: localised, structure-aware
    // corruptions at every site
    catalogue_inputs::<V3>(&mut rng, npk, &mut |v| dec3_event::<V3>(out, v));
    catalogue_inputs::<V5>(&mut rng, 2 * npk, &mut |v| dec3_event::<V5>(out, v));
    for i in 0..n {
        let v = input_for::<V3>(&mut rng, &mut b, i);
        dec3_event::<V3>(out, &v);
    }
    for i in 0..2 * n {
        let v = input_for::<V5>(&mut rng, &mut b, i);
        dec3_event::<V5>(out, &v);
    }
}

// ------------------------------------------------------------------------------------------------
// poll decoder under a scripted schedule, with full observation of the transport boundary
static POLL_RUNS: std::sync::atomic::AtomicUsize = std::sync::atomic::AtomicUsize::new(0);

pub struct PollObs {
    pub events: Vec<J>,
    pub result: J,
    pub polls: usize,
    pub pendings: usize,
}

/// Run the poll decoder over `stream` with `script` (then `default`), dropping and re-creating the
/// future after a Pending when `drops` says so. Emits Read / PollRet / Drop observations.
pub fn poll_run<F: Fam>(
    stream: &Arc<Vec<u8>>,
    script: Vec<RStep>,
    default: RStep,
    drop_at_pending: &mut dyn FnMut() -> bool,
    st: &mut GenericPollPacketState<F::Header>,
    rd_pos: usize,
) -> (PollObs, usize) {
    let mut rd = ScriptedReader::new(stream.clone(), script, default);
    rd.pos = rd_pos;
    // every other run the transport fills the buffer in the initialize_unfilled / advance style
    rd.init_style = POLL_RUNS.fetch_add(1, std::sync::atomic::Ordering::Relaxed) % 2 == 1;
    let calls = rd.calls.clone();
    // (number of transport calls made so far, what the poll returned) after EVERY poll of the decoder
    let mut marks: Vec<(usize, &'static str)> = Vec::new();
    let waker = noop_waker();
    let mut cx = std::task::Context::from_waker(&waker);
    let mut drops: Vec<usize> = Vec::new(); // ordinal of the Pending at which the future was dropped
    let mut polls = 0usize;
    let mut pendings = 0usize;
    let mut result = json!({"k": "spin"});
    let mut done = false;
    while !done && polls < MAX_POLLS {
        // one future, polled until it is dropped at a Pending or becomes ready
        let mut fut = GenericPollPacket::new(st, &mut rd);
        loop {
            polls += 1;
            let r = guarded(|| std::pin::Pin::new(&mut fut).poll(&mut cx));
            // the future still borrows st and rd: read the log only after the borrow ends (below)
            marks.push((calls.load(std::sync::atomic::Ordering::Relaxed),
                        if matches!(r, Ok(std::task::Poll::Pending)) { "pending" } else { "ready" }));
            match r {
                Err(m) => {
                    result = jpanic(&m);
                    done = true;
                    break;
                }
                Ok(std::task::Poll::Pending) => {
                    pendings += 1;
                    if drop_at_pending() {
                        drops.push(pendings);
                        break; // drop the future; a new one is created from the caller-held state
                    }
                    if polls >= MAX_POLLS {
                        done = true;
                        break;
                    }
                    // keep the same future: mark the poll boundary in the log
                    continue;
                }
                Ok(std::task::Poll::Ready(Ok((total, body, p)))) => {
                    let bb = body_bytes(&body);
                    result = json!({"k": "ok", "v": F::to_json(&p), "total": total, "body": jbytes(&bb),
                                    "body_addr": body.as_ptr() as usize, "body_len": body.len()});
                    done = true;
                    break;
                }
                Ok(std::task::Poll::Ready(Err(e))) => {
                    result = F::err_json(&e);
                    done = true;
                    break;
                }
            }
        }
        drop(fut);
    }
    // body buffer geometry (for the buffer-discipline clause of C03): base address and length
    let (base, blen) = match st {
        GenericPollPacketState::Body(b) if !b.buf.is_empty() => (b.buf.as_ptr() as usize, b.buf.len()),
        _ => (
            result["body_addr"].as_u64().unwrap_or(0) as usize,
            result["body_len"].as_u64().unwrap_or(0) as usize,
        ),
    };
    // turn the read log into events, interleaving PollRet(pending) after every pending answer
    let mut evs = Vec::new();
    // Read events in order; after the reads made during a poll, the PollRet of THAT poll as it really returned
    // (a Pending return is an event whether or not the transport answered Pending)
    let mut npend = 0usize;
    let mut mi = 0usize;
    for (k, l) in rd.log.iter().enumerate() {
        let off: i64 = if blen > 0 && l.addr >= base && l.addr < base + blen { (l.addr - base) as i64 } else { -1 };
        evs.push(json!({"ev": "Read", "cap": l.cap, "off": off, "ans": l.ans, "n": l.n,
                        "kind": l.kind.map(io_kind_name).unwrap_or_default(), "pos": l.pos}));
        while mi < marks.len() && marks[mi].0 == k + 1 && marks[mi].1 == "pending" {
            npend += 1;
            evs.push(json!({"ev": "PollRet", "ret": "pending"}));
            if drops.contains(&npend) {
                evs.push(json!({"ev": "Drop"}));
            }
            mi += 1;
        }
    }
    // Pending returns of polls that made no transport call at all
    while mi < marks.len() && marks[mi].1 == "pending" {
        npend += 1;
        evs.push(json!({"ev": "PollRet", "ret": "pending"}));
        if drops.contains(&npend) {
            evs.push(json!({"ev": "Drop"}));
        }
        mi += 1;
    }
    if let Some(o) = result.as_object_mut() {
        o.remove("body_addr");
    }
    evs.push(json!({"ev": "PollRet", "ret": "ready", "out": result.clone(), "buflen": blen}));
    (PollObs { events: evs, result, polls, pendings }, rd.pos)
}

fn random_schedule(rng: &mut Rng, len: usize) -> (Vec<RStep>, RStep) {
    let style = rng.below(6);
    let mut s = Vec::new();
    let steps = (len + 4).min(3000);
    for _ in 0..steps {
        if style != 0 && rng.chance(1, if style == 1 { 2 } else { 5 }) {
            s.push(RStep::Pending);
        }
        let k = match style {
            0 | 1 => 1,
            2 => rng.range(1, 3) as usize,
            3 => rng.range(1, 40) as usize,
            4 => usize::MAX,
            _ => *rng.pick(&[1usize, 2, 7, 100, usize::MAX]),
        };
        s.push(RStep::Data(k));
    }
    (s, RStep::Data(usize::MAX))
}

/// C05: one run = Reset (stream + the result of one uninterrupted read), then the scheduled run
pub fn poll_schedule_run<F: Fam>(out: &mut Out, rng: &mut Rng, run: u64, bytes: &[u8]) {
    poll_scripted_run::<F>(out, rng, run, bytes, None, None)
}

/// the same with a given script (else a random one) and a given drop policy (Some(true): drop the future at EVERY
/// Pending, Some(false): never, None: at random)
pub fn poll_scripted_run<F: Fam>(out: &mut Out, rng: &mut Rng, run: u64, bytes: &[u8], script: Option<(Vec<RStep>, RStep)>,
                                 drop_all: Option<bool>) {
    let stream = Arc::new(bytes.to_vec());
    let oneshot = dec_poll::<F>(bytes, usize::MAX);
    out.boundary();
    out.hold = true;
    out.ev(json!({"ev": "Reset", "run_start": true, "run": run, "fam": F::NAME, "bytes": jbytes(bytes), "oneshot": oneshot}));
    let (script, dflt) = script.unwrap_or_else(|| random_schedule(rng, bytes.len()));
    let mut st: GenericPollPacketState<F::Header> = Default::default();
    let mut dropper_rng = Rng::new(rng.next());
    let mut ndrops = 0u32;
    // on every third run ANOTHER connection is served by the same thread while this decoder is suspended at a Pending:
    // a complete foreign frame goes through all three front-ends (the decoder's progress lives in the caller-held state
    // and nowhere else)
    let other: Vec<u8> = if F::NAME == "v5" { vec![0x32, 0x09, 0, 1, b'x', 0, 9, 0, b'a', b'b', b'c'] }
                         else { vec![0x32, 0x08, 0, 1, b'x', 0, 9, b'a', b'b', b'c'] };
    let interleave = run % 3 == 0;
    let mut dropf = || {
        if interleave {
            let _ = dec_poll::<F>(&other, 2);
            let _ = dec_async::<F>(&other, 2);
            let _ = dec_block::<F>(&other);
        }
        let d = drop_all.unwrap_or_else(|| dropper_rng.bool());
        if d {
            ndrops += 1;
        }
        d
    };
    let (obs, _pos) = poll_run::<F>(&stream, script, dflt, &mut dropf, &mut st, 0);
    let nreads = obs.events.iter().filter(|e| e["ev"] == "Read").count();
    for mut e in obs.events {
        e["run"] = J::from(run);
        out.ev(e);
    }
    out.ev(json!({"ev": "RunEnd", "run": run, "polls": obs.polls, "pendings": obs.pendings, "drops": ndrops,
                          "reads": nreads}));
    out.hold = false;
}

/// every chunking of a short stream, without Pendings, with a Pending before every read (future kept),
/// and with a Pending before every read and the future dropped at each of them
fn exhaustive_schedules<F: Fam>(out: &mut Out, run: &mut u64, bytes: &[u8]) {
    let n = bytes.len();
    if n == 0 || n > 10 {
        return;
    }
    let stream = Arc::new(bytes.to_vec());
    let oneshot = dec_poll::<F>(bytes, usize::MAX);
    for mask in 0..(1u32 << (n - 1)) {
        // chunk boundaries after byte i where bit i is set
        let mut chunks = Vec::new();
        let mut cur = 1usize;
        for i in 0..n - 1 {
            if mask & (1 << i) != 0 {
                chunks.push(cur);
                cur = 1;
            } else {
                cur += 1;
            }
        }
        chunks.push(cur);
        for mode in 0..3 {
            if mode > 0 && n > 7 && mask % 5 != 0 {
                continue;
            }
            *run += 1;
            let mut script = Vec::new();
            for c in &chunks {
                // a chunk offer may exceed what the decoder asks for: the reader caps it, and the remainder
                // is delivered by the following answers
                if mode > 0 {
                    script.push(RStep::Pending);
                }
                script.push(RStep::Data(*c));
            }
            let dflt = RStep::Data(usize::MAX);
            out.boundary();
    out.hold = true;
            out.ev(json!({"ev": "Reset", "run_start": true, "run": *run, "fam": F::NAME, "bytes": jbytes(bytes), "oneshot": oneshot.clone()}));
            let mut st: GenericPollPacketState<F::Header> = Default::default();
            let mut ndrops = 0u32;
            let mut dropf = || {
                if mode == 2 {
                    ndrops += 1;
                }
                mode == 2
            };
            let (obs, _) = poll_run::<F>(&stream, script, dflt, &mut dropf, &mut st, 0);
            let nreads = obs.events.iter().filter(|e| e["ev"] == "Read").count();
            for mut e in obs.events {
                e["run"] = J::from(*run);
                out.ev(e);
            }
            out.ev(json!({"ev": "RunEnd", "run": *run, "polls": obs.polls, "pendings": obs.pendings, "drops": ndrops,
                          "reads": nreads}));
            out.hold = false;
        }
    }
}

/// GEN: a stream from the model's stream set (MC_Poll): every schedule if it is short, else seeded schedules
pub fn model_stream_runs<F: Fam>(out: &mut Out, rng: &mut Rng, run: &mut u64, bytes: &[u8]) {
    if !bytes.is_empty() && bytes.len() <= 10 {
        exhaustive_schedules::<F>(out, run, bytes);
    } else {
        for _ in 0..40 {
            *run += 1;
            poll_schedule_run::<F>(out, rng, *run, bytes);
        }
    }
}

fn short_streams<F: GenFam>(rng: &mut Rng) -> Vec<Vec<u8>> {
    let mut v: Vec<Vec<u8>> = Vec::new();
    let mut b = Budget { big: 0, huge: 0 };
    for t in F::types() {
        for _ in 0..40 {
            let p = F::gen(rng, &mut b, t);
            if let Some(e) = enc::<F>(&p).1 {
                if e.len() <= 9 {
                    v.push(e);
                    break;
                }
            }
        }
    }
    let extra: [&[u8]; 15] = [
        &[0x40, 0x82, 0x00, 0x00, 0x0A], &[0x62, 0x82, 0x80, 0x00, 0x00, 0x01], &[0xB0, 0x82, 0x00, 0x00, 0x05],
        &[0xC0, 0x01, 0x00], &[0xC0, 0x80, 0x00], &[0x40, 0x02, 0x00, 0x00], &[0x62, 0x02, 0x00, 0x01, 0x09],
        &[0x30, 0x80, 0x80, 0x80, 0x80, 0x01], &[0x40, 0x00], &[0x40, 0x03, 0x00, 0x01, 0x00], &[0x00, 0x00],
        &[0x30, 0x04, 0x00, 0x02, 0xC3, 0x28], &[0x82, 0x02, 0x00, 0x01], &[0xE0, 0x00], &[0xD0, 0x00, 0xFF],
    ];
    for e in extra {
        v.push(e.to_vec());
    }
    // an invalid first byte (reserved type, wrong reserved flags, PUBLISH QoS 3) followed by a header that is cut short,
    // over-long, or complete: which of the two faults is reported must not depend on the schedule
    for cb in [0x00u8, 0x36, 0x61, 0x83, 0xF1, 0xF0] {
        for tail in [&[][..], &[0x80], &[0x80, 0x80, 0x80], &[0x80, 0x80, 0x80, 0x80], &[0x80, 0x80, 0x80, 0x80, 0x01],
                     &[0xFF, 0xFF, 0xFF, 0x7F], &[0x02, 0x00]] {
            let mut e = vec![cb];
            e.extend_from_slice(tail);
            v.push(e);
        }
    }
    let base: Vec<Vec<u8>> = v.clone();
    for s in base.iter().take(10) {
        let mut t = s.clone();
        t.pop();
        v.push(t);
        let c = corrupt(rng, s);
        if c.len() <= 9 {
            v.push(c);
        }
    }
    v
}

/// C05 for frames of 4 KiB .. 12 MiB whose size sits on and just above the powers of two and three times the powers
/// of two (where internal budgets, buffer-growth steps and probe reads switch - nobody's protocol boundary).  The
/// stream does not travel as JSON: the events carry the first bytes (all that the frame-end clause needs), and the
/// packet / body are compared by the harness with the result of ONE uninterrupted read and reported as a digest.
fn big_poll_run<F: Fam>(out: &mut Out, run: u64, stream: &Arc<Vec<u8>>, oneshot: &Option<(usize, Vec<u8>, F::Packet)>,
                        script: Vec<RStep>, dflt: RStep, init_style: bool) {
    use std::hash::Hasher;
    let digest = |b: &[u8]| {
        let mut h = std::collections::hash_map::DefaultHasher::new();
        h.write(b);
        format!("{}:{:016x}", b.len(), h.finish())
    };
    let one = match oneshot {
        Some((t, b, _)) => json!({"k": "ok", "v": "same", "total": t, "body": digest(b)}),
        None => json!({"k": "err", "e": "oneshot-failed", "a": []}),
    };
    out.boundary();
    out.hold = true;
    out.ev(json!({"ev": "Reset", "run_start": true, "run": run, "fam": F::NAME, "big": true, "len": stream.len(),
                  "bytes": jbytes(&stream[..stream.len().min(8)]), "oneshot": one}));
    let mut st: GenericPollPacketState<F::Header> = Default::default();
    let mut rd = ScriptedReader::new(stream.clone(), script, dflt);
    rd.init_style = init_style;
    let waker = noop_waker();
    let mut cx = std::task::Context::from_waker(&waker);
    let (mut seen, mut polls, mut pendings, mut reads) = (0usize, 0usize, 0usize, 0usize);
    loop {
        polls += 1;
        let r = {
            let mut fut = GenericPollPacket::new(&mut st, &mut rd);
            guarded(|| std::pin::Pin::new(&mut fut).poll(&mut cx))
        };
        for l in &rd.log[seen..] {
            reads += 1;
            out.ev(json!({"ev": "Read", "run": run, "cap": l.cap, "off": -1, "ans": l.ans, "n": l.n, "pos": l.pos,
                          "kind": l.kind.map(io_kind_name).unwrap_or_default()}));
        }
        seen = rd.log.len();
        let res = match r {
            Err(m) => jpanic(&m),
            Ok(std::task::Poll::Pending) => {
                pendings += 1;
                out.ev(json!({"ev": "PollRet", "run": run, "ret": "pending"}));
                out.ev(json!({"ev": "Drop", "run": run}));
                if polls >= MAX_POLLS {
                    json!({"k": "spin"})
                } else {
                    continue;
                }
            }
            Ok(std::task::Poll::Ready(Ok((total, body, p)))) => {
                let bb = body_bytes(&body);
                let same = oneshot.as_ref().map_or(false, |o| o.2 == p);
                json!({"k": "ok", "v": if same { "same" } else { "different" }, "total": total, "body": digest(&bb)})
            }
            Ok(std::task::Poll::Ready(Err(e))) => F::err_json(&e),
        };
        out.ev(json!({"ev": "PollRet", "run": run, "ret": "ready", "out": res, "buflen": 0}));
        break;
    }
    out.ev(json!({"ev": "RunEnd", "run": run, "polls": polls, "pendings": pendings, "drops": pendings, "reads": reads}));
    out.hold = false;
}

fn big_poll_runs<F: Fam>(out: &mut Out, run: &mut u64) {
    let five = F::NAME == "v5";
    for k in 12..=22u32 {
        for base in [1usize << k, 3usize << k] {
            for d in [0usize, 1, 31] {
                let n = base + d;
                let mut body = vec![0u8, 1, b'a'];
                if five {
                    body.push(0);
                }
                let fill = n - body.len();
                body.extend((0..fill).map(|i| (i % 251) as u8));
                let mut v = crate::topic::frame(0x31, &body);
                let hdr = v.len() - body.len();
                v.extend_from_slice(&[0xC0, 0x00]); // the next frame is already in the transport
                let stream = Arc::new(v);
                let oneshot = {
                    let mut st: GenericPollPacketState<F::Header> = Default::default();
                    let mut rd = ScriptedReader::all(stream.to_vec());
                    rd.logging = false;
                    match guarded(|| drive(GenericPollPacket::new(&mut st, &mut rd), 8).0) {
                        Ok(Some(Ok((t, b, p)))) => Some((t, body_bytes(&b), p)),
                        _ => None,
                    }
                };
                let scripts: Vec<(Vec<RStep>, RStep)> = vec![
                    (vec![], RStep::Data(usize::MAX)),
                    (vec![], RStep::Data(4096)),
                    ((0..400).flat_map(|_| [RStep::Data(65536), RStep::Data(65536), RStep::Pending]).collect(), RStep::Data(65536)),
                    ((0..hdr).map(|_| RStep::Data(1)).chain([RStep::Pending, RStep::Data(1 << 20), RStep::Pending]).collect(), RStep::Data(1 << 20)),
                ];
                for (i, (sc, dflt)) in scripts.into_iter().enumerate() {
                    if i == 1 && n > (1 << 21) + 64 {
                        continue; // (4 KiB reads of the largest frames: thousands of events that add nothing)
                    }
                    *run += 1;
                    big_poll_run::<F>(out, *run, &stream, &oneshot, sc, dflt, (*run + k as u64) % 2 == 1);
                }
            }
        }
    }
}

pub fn record_poll(out: &mut Out, tier: &str, seed: u64) {
    {
        let mut runb = 5_000_000u64;
        big_poll_runs::<V3>(out, &mut runb);
        big_poll_runs::<V5>(out, &mut runb);
    }
    let n = if tier == "thorough" { 40000 } else { 700 };
    let mut rng0 = Rng::new(seed ^ 0xE05);
    let mut run0 = 1_000_000u64;
    for s in short_streams::<V3>(&mut rng0) {
        exhaustive_schedules::<V3>(out, &mut run0, &s);
    }
    for s in short_streams::<V5>(&mut rng0) {
        exhaustive_schedules::<V5>(out, &mut run0, &s);
    }
    let mut rng = Rng::new(seed ^ 0xC05);
    let mut b = Budget { big: if tier == "thorough" { 2000 } else { 120 }, huge: if tier == "thorough" { 40 } else { 3 } };
    let mut run = 0u64;
    if tier == "thorough" {
        // frames whose length field takes FOUR bytes (body >= 2,097,152): one run per family and boundary
        for extra in [0usize, 1, 5000] {
            for fam5 in [false, true] {
                let n = 2097152 + extra;
                let mut body = vec![0u8, 1, b'a'];
                if fam5 {
                    body.push(0);
                }
                let fill = n - body.len();
                body.extend((0..fill).map(|k| (k % 251) as u8));
                let mut v = crate::topic::frame(0x30, &body);
                v.extend_from_slice(&[0xC0, 0x00]);
                run += 1;
                if fam5 {
                    poll_schedule_run::<V5>(out, &mut rng, run, &v);
                } else {
                    poll_schedule_run::<V3>(out, &mut rng, run, &v);
                }
            }
        }
    }
    // frames of every length-field width and on both sides of 64 KiB / 128 KiB, under the schedules that a random
    // draw rarely produces: a Pending before EVERY read with the future dropped at every one of them (whole-buffer and
    // 4 KiB reads), and a single Pending exactly between the fixed header and the body (dropped / kept)
    for n in [5usize, 128, 300, 16384, 65535, 65536, 65537, 70001, 131072, 131073] {
        for fam5 in [false, true] {
            let mut body = vec![0u8, 1, b'a'];
            if fam5 {
                body.push(0);
            }
            let fill = n.max(body.len() + 1) - body.len();
            body.extend((0..fill).map(|k| (k % 251) as u8));
            let mut v = crate::topic::frame(0x30, &body);
            v.extend_from_slice(&[0xC0, 0x00]);
            let hdr = v.len() - 2 - body.len();
            let scripts: Vec<(Vec<RStep>, RStep, Option<bool>)> = vec![
                ((0..40).flat_map(|_| [RStep::Pending, RStep::Data(usize::MAX)]).collect(), RStep::Data(usize::MAX), Some(true)),
                ((0..200).flat_map(|_| [RStep::Pending, RStep::Data(4096)]).collect(), RStep::Data(4096), Some(true)),
                ((0..hdr).map(|_| RStep::Data(1)).chain([RStep::Pending]).collect(), RStep::Data(usize::MAX), Some(true)),
                ((0..hdr).map(|_| RStep::Data(1)).chain([RStep::Pending]).collect(), RStep::Data(usize::MAX), Some(false)),
                ((0..hdr).map(|_| RStep::Data(1)).chain([RStep::Pending, RStep::Data(1), RStep::Pending]).collect(), RStep::Data(usize::MAX), Some(true)),
            ];
            for (sc, dflt, dr) in scripts {
                run += 1;
                if fam5 {
                    poll_scripted_run::<V5>(out, &mut rng, run, &v, Some((sc, dflt)), dr);
                } else {
                    poll_scripted_run::<V3>(out, &mut rng, run, &v, Some((sc, dflt)), dr);
                }
            }
        }
    }
    // TWO faults at once: a catalogue malformation AND the stream ending inside the frame (what is reported - the
    // protocol error or the end of input - must not depend on the schedule), under 1-byte reads with a Pending
    // before each and the future dropped every time, and under 3-byte reads without Pendings
    {
        fn mal_cut_runs<F: GenFam>(out: &mut Out, rng: &mut Rng, run: &mut u64, npk: usize) {
            let mut bb = Budget { big: 0, huge: 0 };
            let types = F::types();
            for i in 0..npk {
                let p = F::gen(rng, &mut bb, types[i % types.len()]);
                let Some(e) = enc::<F>(&p).1 else { continue };
                if e.len() > 120 {
                    continue;
                }
                let Some(fr) = crate::tokens::tokenize(F::NAME, &e) else { continue };
                for m in crate::tokens::catalogue(&fr, rng) {
                    let n = m.bytes.len();
                    if n < 4 {
                        continue;
                    }
                    for cut in [n - 1, n - 1 - rng.below((n as u64 - 2) / 2) as usize] {
                        let v = &m.bytes[..cut];
                        *run += 1;
                        let sc: Vec<RStep> = (0..cut + 2).flat_map(|_| [RStep::Pending, RStep::Data(1)]).collect();
                        poll_scripted_run::<F>(out, rng, *run, v, Some((sc, RStep::Data(1))), Some(true));
                        *run += 1;
                        poll_scripted_run::<F>(out, rng, *run, v, Some((vec![], RStep::Data(3))), Some(false));
                    }
                }
            }
        }
        let npk = if tier == "thorough" { 300 } else { 30 };
        mal_cut_runs::<V3>(out, &mut rng, &mut run, npk);
        mal_cut_runs::<V5>(out, &mut rng, &mut run, 2 * npk);
    }
    for i in 0..n {
        run += 1;
        let v = if i % 3 == 0 { input_for::<V3>(&mut rng, &mut b, i) } else { wide_frame::<V3>(&mut rng, &mut b, i) };
        poll_schedule_run::<V3>(out, &mut rng, run, &v);
        run += 1;
        let v = if i % 3 == 0 { input_for::<V5>(&mut rng, &mut b, i) } else { wide_frame::<V5>(&mut rng, &mut b, i) };
        poll_schedule_run::<V5>(out, &mut rng, run, &v);
    }
}

/// valid frames, biased towards 2- and 3-byte length fields
fn wide_frame<F: GenFam>(rng: &mut Rng, b: &mut Budget, i: usize) -> Vec<u8> {
    let types = F::types();
    let p = F::gen(rng, b, types[i % types.len()]);
    let mut v = enc::<F>(&p).1.unwrap_or_default();
    if i % 7 == 0 {
        // a PUBLISH whose length field takes 2 or 3 bytes
        let n = *rng.pick(&[128usize, 129, 300, 16383, 16384, 20000, 65536, 65537, 70001]);
        let mut body = vec![0u8, 1, b'a'];
        if F::NAME == "v5" {
            body.push(0);
        }
        body.extend(rng.bytes(n - body.len()));
        v = crate::topic::frame(0x30, &body);
    }
    if i % 5 == 1 {
        // the same frame with a padded (non-minimal) remaining length: every decoder accepts it, and the
        // reported size must still be what was consumed
        if let Some(fr) = crate::tokens::tokenize(F::NAME, &v) {
            v = crate::tokens::nonminimal_rl(&fr);
        }
    }
    if rng.chance(1, 3) {
        v.extend(rng.bytes_range(1, 5));
    }
    v
}

// ------------------------------------------------------------------------------------------------
// C08
fn stream_events<F: GenFam>(out: &mut Out, rng: &mut Rng, b: &mut Budget, run: u64) {
    stream_events_with::<F>(out, rng, b, run, Vec::new(), None)
}

/// `preset`: packets placed at the front of the stream; `force_front`: the front-end to use
fn stream_events_with<F: GenFam>(out: &mut Out, rng: &mut Rng, b: &mut Budget, run: u64, preset: Vec<F::Packet>,
                                 force_front: Option<&'static str>) {
    let types = F::types();
    let hi = if rng.chance(1, 10) { 40 } else { 8 };
    let n = rng.range(1, hi) as usize;
    let mut ps = Vec::new();
    let mut stream = Vec::new();
    let mut lens = Vec::new();
    let mut spelled = false;
    for p in preset {
        let e = enc::<F>(&p).1.unwrap_or_default();
        lens.push(e.len());
        stream.extend_from_slice(&e);
        ps.push(p);
    }
    let npre = ps.len();
    for i in 0..n {
        let t = if rng.chance(1, 4) { *rng.pick(&["Pingreq", "Pingresp", "Disconnect", "Puback"]) } else { types[(run as usize + i * 7) % types.len()] };
        let p = F::gen(rng, b, t);
        let mut e = enc::<F>(&p).1.unwrap_or_default();
        // a legal non-canonical spelling of the same packet, as another MQTT stack would send it (short forms
        // spelled out, properties in another order): same packet, different length
        if rng.chance(1, 4) {
            if let Some(fr) = crate::tokens::tokenize(F::NAME, &e) {
                let sp: Vec<(String, Vec<u8>)> =
                    crate::tokens::spellings(&fr).into_iter().filter(|(n, _)| !n.starts_with("DUP")).collect();
                if !sp.is_empty() {
                    e = rng.pick(&sp).1.clone();
                    spelled = true;
                }
            }
        }
        lens.push(e.len());
        stream.extend_from_slice(&e);
        ps.push(p);
    }
    let stream = Arc::new(stream);
    // the blocking front-end advances by the ENCODED length of what it decoded, which is only the consumed length
    // for canonical encodings
    let front = match force_front {
        Some(f) if !spelled => f,
        _ => if spelled { *rng.pick(&["poll", "async"]) } else { *rng.pick(&["poll", "async", "block", "block-acc", "poll-whole"]) },
    };
    let n = n + npre;
    out.boundary();
    out.hold = true;
    out.ev(json!({"ev": "StreamStart", "run_start": true, "run": run, "fam": F::NAME, "front": front,
                  "packets": ps.iter().map(|p| F::to_json(p)).collect::<Vec<_>>(), "lens": lens, "total": stream.len()}));
    let mut pos = 0usize;
    let mut i = 0usize;
    let mut delivered = 0usize; // (block-acc: how much of the stream is in the receive buffer)
    loop {
        i += 1;
        if i > n + 2 {
            break;
        }
        let before = pos;
        delivered = delivered.max(pos).min(stream.len());
        let (res, after, reported): (J, usize, i64) = match front {
            "poll" | "poll-whole" => {
                let (script, dflt) = if front == "poll" { random_schedule(rng, stream.len() - pos) } else { (vec![], RStep::Data(usize::MAX)) };
                let mut st: GenericPollPacketState<F::Header> = Default::default();
                let mut never = || false;
                let (obs, p2) = poll_run::<F>(&stream, script, dflt, &mut never, &mut st, pos);
                let rep = obs.result["total"].as_i64().unwrap_or(-1);
                let mut r = obs.result.clone();
                if let Some(o) = r.as_object_mut() {
                    o.remove("body");
                }
                (r, p2, rep)
            }
            "async" => {
                let r = guarded(|| {
                    let mut rd = ScriptedReader::new(stream.clone(), vec![], RStep::Data(1 + rng.below(9) as usize));
                    rd.pos = pos;
                    rd.logging = false;
                    let (o, _) = drive(F::decode_async(&mut rd), MAX_POLLS);
                    (o, rd.pos)
                });
                match r {
                    Err(m) => (jpanic(&m), pos, -1),
                    Ok((None, p2)) => (json!({"k": "spin"}), p2, -1),
                    Ok((Some(Ok(p)), p2)) => (jok(F::to_json(&p)), p2, (p2 - pos) as i64),
                    Ok((Some(Err(e)), p2)) => (F::err_json(&e), p2, -1),
                }
            }
            "block-acc" => {
                // the blocking decoder over a receive buffer that is filled in pieces: Ok(None) = wait for more
                let chunk = if stream.len() > 5000 { *rng.pick(&[1460usize, 4096, 65536, 70000]) } else { 1 + rng.below(9) as usize };
                let mut r;
                loop {
                    r = dec_block::<F>(&stream[pos..delivered]);
                    if r["k"] == "incomplete" && delivered < stream.len() {
                        delivered = (delivered + chunk).min(stream.len());
                    } else {
                        break;
                    }
                }
                let adv = if r["k"] == "ok" {
                    match F::from_json(&r["v"]) {
                        Ok(p) => F::encode_len(&p).map(|x| x as i64).unwrap_or(-1),
                        Err(_) => -1,
                    }
                } else {
                    -1
                };
                (r, if adv > 0 { pos + adv as usize } else { pos }, adv)
            }
            _ => {
                let r = dec_block::<F>(&stream[pos..]);
                // the caller advances by the encoded length of what it got
                let adv = if r["k"] == "ok" {
                    match F::from_json(&r["v"]) {
                        Ok(p) => F::encode_len(&p).map(|x| x as i64).unwrap_or(-1),
                        Err(_) => -1,
                    }
                } else {
                    -1
                };
                (r, if adv > 0 { pos + adv as usize } else { pos }, adv)
            }
        };
        pos = after;
        let is_ok = res["k"] == "ok";
        if is_ok {
            out.ev(json!({"ev": "StreamPkt", "run": run, "i": i, "pos_before": before, "pos_after": after,
                          "reported": reported, "res": res}));
        } else {
            out.ev(json!({"ev": "StreamEnd", "run": run, "i": i, "pos": before, "res": res}));
            break;
        }
    }
    out.hold = false;
}

fn big_publish<F: GenFam>(rl: usize) -> Option<F::Packet> {
    // a QoS-0 PUBLISH whose remaining length is exactly rl (topic "t"; v5: empty property block)
    let overhead = if F::NAME == "v5" { 4 } else { 3 };
    let j = serde_json::json!({"t": "Publish", "dup": false, "retain": false, "qos": 0, "pid": [], "topic": [116],
        "payload": vec![7u8; rl - overhead],
        "props": {"pfi": [], "mei": [], "ta": [], "rt": [], "cd": [], "sid": [], "ct": [], "user": []}});
    let mut j = j;
    if F::NAME == "v3" {
        j.as_object_mut().unwrap().remove("props");
    }
    F::from_json(&j).ok()
}

pub fn record_stream(out: &mut Out, tier: &str, seed: u64) {
    let n = if tier == "thorough" { 20000 } else { 700 };
    let mut rng = Rng::new(seed ^ 0xC08);
    let mut b = Budget { big: if tier == "thorough" { 800 } else { 60 }, huge: if tier == "thorough" { 20 } else { 1 } };
    // maximal-width headers: remaining lengths on the 3-byte / 4-byte boundary, followed by ordinary packets
    let mut big: Vec<(usize, &'static str, bool)> = vec![(2097151, "block", false), (2097152, "poll", true)];
    if tier == "thorough" {
        big.extend([(2097151, "poll", true), (2097152, "block", false), (2097150, "async", false), (2097153, "async", true),
                    (16383, "block", true), (16384, "block", false)]);
    }
    let mut bb = Budget { big: 0, huge: 0 };
    for (k, (rl, front, v5)) in big.into_iter().enumerate() {
        if v5 {
            if let Some(p) = big_publish::<V5>(rl) {
                stream_events_with::<V5>(out, &mut rng, &mut bb, 900_000 + k as u64, vec![p], Some(front));
            }
        } else if let Some(p) = big_publish::<V3>(rl) {
            stream_events_with::<V3>(out, &mut rng, &mut bb, 900_000 + k as u64, vec![p], Some(front));
        }
    }
    // frames whose remaining length is exactly a power of two or three times one (where internal read budgets, buffer
    // growth steps and chunked payload reads switch), followed by ordinary packets, through every front-end incl. the
    // blocking decoder over a receive buffer filled in pieces and the poll decoder over an always-ready transport
    {
        let mut k = 0u64;
        for rl in [12288usize, 16384, 49152, 65536, 65537, 98304, 131072, 196608] {
            for front in ["poll-whole", "block-acc", "async", "poll"] {
                k += 1;
                if (rl > 65537 && tier != "thorough") && (k % 2 == 0) && front != "poll-whole" && front != "block-acc" {
                    continue;
                }
                if k % 2 == 0 {
                    if let Some(p) = big_publish::<V5>(rl) {
                        stream_events_with::<V5>(out, &mut rng, &mut bb, 905_000 + k, vec![p], Some(front));
                    }
                } else if let Some(p) = big_publish::<V3>(rl) {
                    stream_events_with::<V3>(out, &mut rng, &mut bb, 905_000 + k, vec![p], Some(front));
                }
            }
        }
    }
    // the boundary packets (remaining length / property length on and around every width boundary, per packet type),
    // five at a time at the front of a stream, through each front-end in turn
    let fronts = ["poll", "async", "block"];
    let bp3 = crate::wire::boundary_packets_v3("quick");
    for (k, ch) in bp3.chunks(5).enumerate() {
        stream_events_with::<V3>(out, &mut rng, &mut bb, 910_000 + k as u64, ch.to_vec(), Some(fronts[k % 3]));
    }
    let bp5 = crate::wire::boundary_packets_v5("quick");
    for (k, ch) in bp5.chunks(5).enumerate() {
        stream_events_with::<V5>(out, &mut rng, &mut bb, 920_000 + k as u64, ch.to_vec(), Some(fronts[k % 3]));
    }
    for run in 0..n {
        stream_events::<V3>(out, &mut rng, &mut b, 2 * run as u64 + 1);
        stream_events::<V5>(out, &mut rng, &mut b, 2 * run as u64 + 2);
    }
}

// ------------------------------------------------------------------------------------------------
// C14
fn fault_events<F: Fam>(out: &mut Out, rng: &mut Rng, p: &F::Packet) {
    let (e, bytes) = enc::<F>(p);
    let mut ev = json!({"ev": "Fault", "fam": F::NAME, "packet": F::to_json(p), "enc": e});
    if let Some(b) = bytes {
        let n = b.len();
        let positions: Vec<usize> = if n <= 120 {
            (0..=n).collect()
        } else {
            let mut v: Vec<usize> = (0..40).collect();
            v.extend(n - 12..=n);
            for _ in 0..20 {
                v.push(rng.below(n as u64 + 1) as usize);
            }
            v.sort();
            v.dedup();
            v
        };
        ev["all"] = J::from(positions.len() == n + 1);
        let stream_ok = enc_stream::<F>(p, usize::MAX, None);
        let body_len = stream_ok["sink"].as_array().map(|a| a.len()).unwrap_or(0);
        let mut dec = Vec::new();
        let mut encs = Vec::new();
        for k in &positions {
            let k = *k;
            // (Interrupted: a decoder does not retry it; std's blocking write_all does, so the streaming encoder is
            // not given that kind)
            for kind in FAULT_KINDS.iter().chain([std::io::ErrorKind::Interrupted, std::io::ErrorKind::UnexpectedEof].iter()) {
                let is_eof_step = *kind == std::io::ErrorKind::UnexpectedEof;
                let interrupted = *kind == std::io::ErrorKind::Interrupted;
                if k == n && !is_eof_step {
                    // a read fault after the last byte is never observed by a decoder that stops at the frame end
                }
                // decoders: deliver k bytes, then the fault (the end of the stream both as a 0-byte read and, every
                // other time, as an ERROR of kind UnexpectedEof, as TLS streams report a missing close_notify)
                if k < n {
                    let chunk = if rng.bool() { usize::MAX } else { 1 + rng.below(4) as usize };
                    let step = if is_eof_step && (k % 2 == 0) { RStep::Eof } else { RStep::Err(*kind) };
                    let pend_first = rng.chance(1, 3);
                    for front in ["async", "poll"] {
                        let r = guarded(|| {
                            // the fault is bound to the byte position k, however many calls the decoder makes to get there
                            let mut rd = ScriptedReader::new(Arc::new(b.clone()), vec![], RStep::Data(chunk));
                            rd.fault_at = Some((k, step, if pend_first { 1 } else { 0 }));
                            rd.logging = false;
                            rd.init_style = k % 2 == 1;
                            if front == "async" {
                                drive(F::decode_async(&mut rd), MAX_POLLS).0.map(|r| r.map(|_| ()))
                            } else {
                                let mut st: GenericPollPacketState<F::Header> = Default::default();
                                drive(GenericPollPacket::new(&mut st, &mut rd), MAX_POLLS).0.map(|r| r.map(|_| ()))
                            }
                        });
                        let res = match r {
                            Err(m) => jpanic(&m),
                            Ok(None) => json!({"k": "spin"}),
                            Ok(Some(Ok(()))) => json!({"k": "ok"}),
                            Ok(Some(Err(e))) => F::err_json(&e),
                        };
                        let a0 = res["a"].get(0).and_then(|x| x.as_str()).unwrap_or("").to_string();
                        dec.push(json!([k, io_kind_name(*kind), front, res["k"].as_str().unwrap_or(""),
                                        res["e"].as_str().unwrap_or(""), a0, res["eof"].as_bool().unwrap_or(false)]));
                    }
                }
                // encoders: accept k bytes, then the fault (a zero-length write for the EOF slot)
                if k < n {
                    let f = if is_eof_step { WStep::Zero } else { WStep::Err(*kind) };
                    // a dead connection: once the write fault has been answered, flushing the sink fails with ANOTHER kind
                    // (the write fault is what has to be reported); every other run the sink takes vectored writes
                    let other = if *kind == std::io::ErrorKind::BrokenPipe { std::io::ErrorKind::NotConnected } else { std::io::ErrorKind::BrokenPipe };
                    let a = crate::codec::enc_async_on::<F>(p, vec![], WStep::Accept(1 + rng.below(5) as usize), Some((k, f)),
                                                            k % 2 == 1, Some(other));
                    let a0 = a["res"]["a"].get(0).and_then(|x| x.as_str()).unwrap_or("").to_string();
                    encs.push(json!([k, if is_eof_step { "Zero".to_string() } else { io_kind_name(*kind) }, "async",
                                     a["res"]["k"].as_str().unwrap_or(""), a["res"]["e"].as_str().unwrap_or(""), a0, a["sink"]]));
                    if k < body_len && !interrupted {
                        // the streaming body encoder sees the body only: fault position relative to the body
                        let s = enc_stream::<F>(p, 1 + rng.below(5) as usize, Some((k, f)));
                        if s["k"] == "body" {
                            let a0 = s["res"]["a"].get(0).and_then(|x| x.as_str()).unwrap_or("").to_string();
                            encs.push(json!([k, if is_eof_step { "Zero".to_string() } else { io_kind_name(*kind) }, "stream",
                                             s["res"]["k"].as_str().unwrap_or(""), s["res"]["e"].as_str().unwrap_or(""), a0, s["sink"]]));
                        }
                    }
                }
            }
        }
        ev["dec"] = J::Array(dec);
        ev["encf"] = J::Array(encs);
        ev["stream_ok"] = stream_ok;
    }
    out.ev(ev);
}

fn conv_events(out: &mut Out) {
    use mqtt_proto::Error as E;
    let kinds = [
        std::io::ErrorKind::ConnectionReset,
        std::io::ErrorKind::BrokenPipe,
        std::io::ErrorKind::TimedOut,
        std::io::ErrorKind::Other,
        std::io::ErrorKind::UnexpectedEof,
        std::io::ErrorKind::WriteZero,
        std::io::ErrorKind::PermissionDenied,
        std::io::ErrorKind::InvalidData,
    ];
    for k in kinds {
        let e: E = std::io::Error::new(k, "x").into();
        let back: std::io::Error = e.clone().into();
        let e5: mqtt_proto::v5::ErrorV5 = std::io::Error::new(k, "x").into();
        out.ev(json!({"ev": "Conv", "dir": "io", "kind": io_kind_name(k), "as_v3": err3_to_json(&e),
                      "as_v5": err5_to_json(&e5), "back": io_kind_name(back.kind()), "eof3": e.is_eof(), "eof5": e5.is_eof()}));
    }
    // an io::Error that wraps another io::Error (a layered transport): the kind is the OUTER one's
    for (outer, inner) in [(std::io::ErrorKind::Other, std::io::ErrorKind::ConnectionReset), (std::io::ErrorKind::Other, std::io::ErrorKind::UnexpectedEof),
                           (std::io::ErrorKind::BrokenPipe, std::io::ErrorKind::TimedOut), (std::io::ErrorKind::UnexpectedEof, std::io::ErrorKind::Other)] {
        let mk = || std::io::Error::new(outer, std::io::Error::from(inner));
        let e: E = mk().into();
        let back: std::io::Error = e.clone().into();
        let e5: mqtt_proto::v5::ErrorV5 = mk().into();
        out.ev(json!({"ev": "Conv", "dir": "io", "kind": io_kind_name(outer), "as_v3": err3_to_json(&e),
                      "as_v5": err5_to_json(&e5), "back": io_kind_name(back.kind()), "eof3": e.is_eof(), "eof5": e5.is_eof()}));
    }
    let protos: Vec<E> = vec![
        E::InvalidRemainingLength, E::EmptySubscription, E::ZeroPid, E::InvalidQos(3), E::InvalidConnectFlags(1),
        E::InvalidConnackFlags(2), E::InvalidConnectReturnCode(9), E::InvalidProtocol("x".into(), 1),
        E::UnexpectedProtocol(mqtt_proto::Protocol::V500), E::InvalidHeader, E::InvalidVarByteInt,
        E::InvalidTopicName("+".into()), E::InvalidTopicFilter("".into()), E::InvalidString,
    ];
    for e in protos {
        let io: std::io::Error = e.clone().into();
        out.ev(json!({"ev": "Conv", "dir": "proto", "err": err3_to_json(&e), "back": io_kind_name(io.kind())}));
        // ... and that io::Error given to the codec again (a layered transport that itself speaks MQTT): it is an I/O
        // error of the kind it has, whatever it carries
        let k = io.kind();
        let again: E = io.into();
        let io2: std::io::Error = e.clone().into();
        let again5: mqtt_proto::v5::ErrorV5 = io2.into();
        let back: std::io::Error = again.clone().into();
        out.ev(json!({"ev": "Conv", "dir": "io", "kind": io_kind_name(k), "as_v3": err3_to_json(&again),
                      "as_v5": err5_to_json(&again5), "back": io_kind_name(back.kind()), "eof3": again.is_eof(), "eof5": again5.is_eof()}));
    }
}

/// faults in a packet of 5 MiB (an encoder / decoder that treats large packets in slices): positions around the
/// slice boundaries; only kinds, lengths and prefix-ness are recorded
fn big_fault_events<F: Fam>(out: &mut Out, p: &F::Packet) {
    let Some(full) = enc::<F>(p).1 else { return };
    let total = full.len();
    let arc = Arc::new(full);
    let positions = [0usize, 1, (1 << 20) + 3, (4 << 20) - 1, 4 << 20, (4 << 20) + 1, total - 1];
    let mut rows = Vec::new();
    for pos in positions {
        for (label, w, r) in [("Zero", WStep::Zero, RStep::Eof), ("ConnectionReset", WStep::Err(std::io::ErrorKind::ConnectionReset), RStep::Err(std::io::ErrorKind::ConnectionReset)),
                              ("TimedOut", WStep::Err(std::io::ErrorKind::TimedOut), RStep::Err(std::io::ErrorKind::TimedOut))] {
            // async encoder
            let res = guarded(|| {
                let mut wr = ScriptedWriter::new(vec![], WStep::Accept((1 << 20) + 1));
                wr.fail_at = Some((pos, w));
                let (o, _) = drive(F::encode_async(p, &mut wr), MAX_POLLS);
                (o, wr.sink)
            });
            let row = match res {
                Err(_) => json!([pos, label, "enc", "panic", "", "", 0, false]),
                Ok((None, s)) => json!([pos, label, "enc", "spin", "", "", s.len(), false]),
                Ok((Some(Ok(())), s)) => json!([pos, label, "enc", "ok", "", "", s.len(), s[..] == arc[..s.len().min(total)]]),
                Ok((Some(Err(e)), s)) => {
                    let j = F::err_json(&e);
                    json!([pos, label, "enc", j["k"], j["e"], j["a"].get(0).cloned().unwrap_or(J::from("")), s.len(),
                           s.len() <= total && s[..] == arc[..s.len()]])
                }
            };
            rows.push(row);
            // async and poll decoders: the same fault on the read side
            for front in ["async", "poll"] {
                let res = guarded(|| {
                    let mut rd = ScriptedReader::new(arc.clone(), vec![], RStep::Data((1 << 20) + 1));
                    rd.fault_at = Some((pos, r, 0));
                    rd.logging = false;
                    if front == "async" {
                        drive(F::decode_async(&mut rd), MAX_POLLS).0.map(|x| x.map(|_| ()))
                    } else {
                        let mut st: GenericPollPacketState<F::Header> = Default::default();
                        drive(GenericPollPacket::new(&mut st, &mut rd), MAX_POLLS).0.map(|x| x.map(|_| ()))
                    }
                });
                rows.push(match res {
                    Err(_) => json!([pos, label, front, "panic", "", "", 0, true]),
                    Ok(None) => json!([pos, label, front, "spin", "", "", 0, true]),
                    Ok(Some(Ok(()))) => json!([pos, label, front, "ok", "", "", 0, true]),
                    Ok(Some(Err(e))) => {
                        let j = F::err_json(&e);
                        json!([pos, label, front, j["k"], j["e"], j["a"].get(0).cloned().unwrap_or(J::from("")), 0, j["eof"].as_bool().unwrap_or(false)])
                    }
                });
            }
        }
    }
    out.ev(json!({"ev": "BigFault", "fam": F::NAME, "total": total, "rows": rows}));
}

pub fn record_fault(out: &mut Out, tier: &str, seed: u64) {
    let n = if tier == "thorough" { 3000 } else { 120 };
    let mut rng = Rng::new(seed ^ 0xC14);
    let mut b = Budget { big: if tier == "thorough" { 200 } else { 10 }, huge: 0 };
    conv_events(out);
    if !cfg!(debug_assertions) {
        big_fault_events::<V3>(out, &crate::wire::publish_v3(3, 5 << 20, false));
        big_fault_events::<V5>(out, &crate::wire::publish_v5(3, 5 << 20));
    }
    let t3 = V3::types();
    for i in 0..n {
        let p = V3::gen(&mut rng, &mut b, t3[i % t3.len()]);
        fault_events::<V3>(out, &mut rng, &p);
    }
    let t5 = V5::types();
    for i in 0..2 * n {
        let p = V5::gen(&mut rng, &mut b, t5[i % t5.len()]);
        fault_events::<V5>(out, &mut rng, &p);
    }
}

// ------------------------------------------------------------------------------------------------
// EXTRA: the poll decoder's CALLER-HELD STATE against the implementation-shaped specification
// (PollDecoder.tla).  The future is dropped after every poll, so the public state
// (Header{control_byte, var_idx, var_int} / Body{header, total, idx, buf.len()}) can be read between any two
// polls; every transport call and every poll return is an event, and each PollRet carries the state snapshot.
fn poll_state_json<F: Fam>(st: &GenericPollPacketState<F::Header>) -> J {
    match st {
        GenericPollPacketState::Header(h) => json!({"ph": "Hdr", "cb": h.control_byte.map(|b| b as i64).unwrap_or(-1),
                                                    "vi": h.var_idx, "vn": h.var_int}),
        GenericPollPacketState::Body(b) => json!({"ph": "Body", "h": F::header_json(&b.header), "total": b.total,
                                                  "idx": b.idx, "blen": b.buf.len()}),
    }
}

/// the remaining length a stream declares (None while the length field is incomplete or over-long)
fn declared_rl(b: &[u8]) -> Option<usize> {
    let mut v = 0usize;
    for (i, x) in b.iter().skip(1).take(4).enumerate() {
        v |= ((*x & 0x7F) as usize) << (7 * i);
        if *x & 0x80 == 0 {
            return Some(v);
        }
    }
    None
}

pub fn poll_impl_run<F: Fam>(out: &mut Out, run: u64, bytes: &[u8], script: Vec<RStep>, dflt: RStep,
                             fault: Option<(usize, RStep, usize)>) {
    // PollDecoder.tla holds the body buffer cell by cell: streams that declare a large body are left to the
    // representation-free Trace_Poll
    if declared_rl(bytes).unwrap_or(0) > 400 {
        return;
    }
    let stream = Arc::new(bytes.to_vec());
    out.boundary();
    out.hold = true;
    out.ev(json!({"ev": "Reset", "run_start": true, "run": run, "fam": F::NAME, "bytes": jbytes(bytes)}));
    let mut st: GenericPollPacketState<F::Header> = Default::default();
    let mut rd = ScriptedReader::new(stream.clone(), script, dflt);
    rd.fault_at = fault;
    rd.init_style = run % 2 == 1;
    let waker = noop_waker();
    let mut cx = std::task::Context::from_waker(&waker);
    let mut seen = 0usize;
    let mut polls = 0usize;
    loop {
        polls += 1;
        let r = {
            let mut fut = GenericPollPacket::new(&mut st, &mut rd);
            guarded(|| std::pin::Pin::new(&mut fut).poll(&mut cx))
            // the future is dropped here: everything the decoder knows is in `st`
        };
        for l in &rd.log[seen..] {
            out.ev(json!({"ev": "Read", "run": run, "cap": l.cap, "ans": l.ans, "n": l.n, "pos": l.pos,
                          "kind": l.kind.map(io_kind_name).unwrap_or_default()}));
        }
        seen = rd.log.len();
        let snap = poll_state_json::<F>(&st);
        match r {
            Err(m) => {
                out.ev(json!({"ev": "PollRet", "run": run, "ret": "ready", "out": jpanic(&m), "st": snap}));
                break;
            }
            Ok(std::task::Poll::Pending) => {
                out.ev(json!({"ev": "PollRet", "run": run, "ret": "pending", "st": snap}));
                if polls >= MAX_POLLS {
                    out.ev(json!({"ev": "PollRet", "run": run, "ret": "ready", "out": {"k": "spin"}, "st": snap}));
                    break;
                }
            }
            Ok(std::task::Poll::Ready(Ok((total, body, p)))) => {
                let bb = body_bytes(&body);
                out.ev(json!({"ev": "PollRet", "run": run, "ret": "ready", "st": snap,
                              "out": {"k": "ok", "v": F::to_json(&p), "total": total, "body": jbytes(&bb)}}));
                break;
            }
            Ok(std::task::Poll::Ready(Err(e))) => {
                out.ev(json!({"ev": "PollRet", "run": run, "ret": "ready", "st": snap, "out": F::err_json(&e)}));
                break;
            }
        }
    }
    out.hold = false;
}

fn poll_impl_family<F: GenFam>(out: &mut Out, tier: &str, seed: u64) {
    let mut rng = Rng::new(seed ^ 0x1A91);
    let mut run = 0u64;
    let pend1 = |n: usize| -> Vec<RStep> { (0..n + 2).flat_map(|_| [RStep::Pending, RStep::Data(1)]).collect() };
    // (a) the short streams of C05 (every type, malformed headers, cut streams): a snapshot between any two bytes, and
    //     every way of cutting the stream into two reads
    let mut shorts = short_streams::<F>(&mut rng);
    shorts.sort();
    shorts.dedup();
    for s in &shorts {
        run += 1;
        poll_impl_run::<F>(out, run, s, pend1(s.len()), RStep::Data(1), None);
        for k in 1..s.len() {
            run += 1;
            poll_impl_run::<F>(out, run, s, vec![RStep::Data(k), RStep::Pending], RStep::Data(usize::MAX), None);
        }
    }
    // (b) seeded packets of every type (<= 300 bytes), catalogue malformations, corruptions, wide length fields:
    //     random schedules, a transport fault at a random position, the stream cut short
    let n = if tier == "thorough" { 6000 } else { 500 };
    let mut b = Budget { big: 0, huge: 0 };
    let kinds = [std::io::ErrorKind::ConnectionReset, std::io::ErrorKind::TimedOut, std::io::ErrorKind::BrokenPipe,
                 std::io::ErrorKind::Interrupted, std::io::ErrorKind::WouldBlock];
    let mut i = 0usize;
    while i < n {
        i += 1;
        let v = match i % 4 {
            0 => wide_frame::<F>(&mut rng, &mut b, i),
            _ => input_for::<F>(&mut rng, &mut b, i),
        };
        if v.is_empty() || v.len() > 300 {
            continue;
        }
        let (sc, dflt) = random_schedule(&mut rng, v.len());
        run += 1;
        poll_impl_run::<F>(out, run, &v, sc, dflt, None);
        if i % 5 == 0 {
            run += 1;
            poll_impl_run::<F>(out, run, &v, pend1(v.len()), RStep::Data(1), None);
        }
        if i % 3 == 0 {
            let at = rng.below(v.len() as u64 + 1) as usize;
            let (sc, dflt) = random_schedule(&mut rng, v.len());
            run += 1;
            poll_impl_run::<F>(out, run, &v, sc, dflt, Some((at, RStep::Err(*rng.pick(&kinds)), rng.below(2) as usize)));
            let cut = rng.below(v.len() as u64) as usize;
            let (sc, dflt) = random_schedule(&mut rng, cut);
            run += 1;
            poll_impl_run::<F>(out, run, &v[..cut], sc, dflt, None);
        }
    }
    // (c) catalogue malformations of small packets, whole and cut short
    let types = F::types();
    let npk = if tier == "thorough" { 200 } else { 24 };
    for i in 0..npk {
        let p = F::gen(&mut rng, &mut b, types[i % types.len()]);
        let Some(e) = enc::<F>(&p).1 else { continue };
        if e.len() > 150 {
            continue;
        }
        let Some(fr) = crate::tokens::tokenize(F::NAME, &e) else { continue };
        for m in crate::tokens::catalogue(&fr, &mut rng) {
            if m.bytes.is_empty() || m.bytes.len() > 300 {
                continue;
            }
            let (sc, dflt) = random_schedule(&mut rng, m.bytes.len());
            run += 1;
            poll_impl_run::<F>(out, run, &m.bytes, sc, dflt, None);
        }
    }
}

pub fn record_pollimpl(out: &mut Out, tier: &str, seed: u64, fam: &str) {
    if fam == "v5" {
        poll_impl_family::<V5>(out, tier, seed);
    } else {
        poll_impl_family::<V3>(out, tier, seed);
    }
}
