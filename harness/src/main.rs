//! verif-harness: drives the real mqtt-proto code and records / replays events for the TLA+
//! specification suite under /verif/spec.  See /verif/DESIGN.md section 4.

#![allow(dead_code)]

mod accept;
mod api;
mod arith;
mod codec;
mod fam;
mod frontends;
mod gen;
mod io;
mod model;
mod out;
mod rng;
mod tokens;
mod topic;
mod wire;

use std::collections::HashMap;

fn main() {
    // a panic inside the library is data (caught by io::guarded); keep the default hook quiet
    // a panic of the harness itself is reported
    std::panic::set_hook(Box::new(|info| {
        if io::IN_GUARD.with(|g| g.get()) == 0 {
            eprintln!("harness panic: {info}");
        }
    }));
    #[cfg(not(miri))]
    io::start_watchdog();
    let args: Vec<String> = std::env::args().collect();
    if args.len() < 3 {
        eprintln!("usage: verif-harness record <area> [--key value]...");
        std::process::exit(2);
    }
    let cmd = args[1].as_str();
    let area = args[2].as_str();
    let mut opt: HashMap<String, String> = HashMap::new();
    let mut i = 3;
    while i + 1 < args.len() {
        opt.insert(args[i].trim_start_matches("--").to_string(), args[i + 1].clone());
        i += 2;
    }
    let get = |k: &str, d: &str| opt.get(k).cloned().unwrap_or_else(|| d.to_string());
    let seed: u64 = get("seed", "1").parse().expect("seed");
    let tier = get("tier", "quick");
    let outp = get("out", "trace.ndjson");
    let shard: u64 = get("shard", "0").parse().expect("shard");
    match (cmd, area) {
        ("record", "varint") => {
            let mut o = out::Out::new(&outp, shard);
            arith::record_varint(&mut o, &tier, seed);
            let n = o.seq;
            let shards = o.finish();
            println!("{{\"events\":{n},\"shards\":{shards}}}");
        }
        ("record", "topic") => {
            let mut o = out::Out::new(&outp, shard);
            topic::record_topic(&mut o, &tier, seed);
            let n = o.seq;
            let shards = o.finish();
            println!("{{\"events\":{n},\"shards\":{shards}}}");
        }
        ("record", "roundtrip") | ("record", "lens") | ("record", "enc") => {
            let mut o = out::Out::new(&outp, shard);
            let profile = if cfg!(debug_assertions) { "debug" } else { "release" };
            match area {
                "roundtrip" => wire::record_roundtrip(&mut o, &tier, seed),
                "lens" => wire::record_lens(&mut o, &tier, seed, profile),
                _ => wire::record_enc(&mut o, &tier, seed),
            }
            let n = o.seq;
            let shards = o.finish();
            println!("{{\"events\":{n},\"shards\":{shards}}}");
        }
        ("record", "miri") | ("record", "short") | ("record", "cut") | ("record", "dec3") | ("record", "poll") | ("record", "stream") | ("record", "fault") => {
            let mut o = out::Out::new(&outp, shard);
            match area {
                "miri" => frontends::record_miri(&mut o, seed, &get("part", "dec3")),
                "short" => frontends::record_short(&mut o, &tier),
                "cut" => frontends::record_cut(&mut o, &tier, seed),
                "dec3" => frontends::record_dec3(&mut o, &tier, seed),
                "poll" => frontends::record_poll(&mut o, &tier, seed),
                "stream" => frontends::record_stream(&mut o, &tier, seed),
                _ => frontends::record_fault(&mut o, &tier, seed),
            }
            let n = o.seq;
            let shards = o.finish();
            println!("{{\"events\":{n},\"shards\":{shards}}}");
        }
        ("record", "mal") | ("record", "strict") | ("record", "reenc") | ("record", "decoded") | ("record", "cross") => {
            let mut o = out::Out::new(&outp, shard);
            match area {
                "mal" => accept::record_mal(&mut o, &tier, seed),
                "strict" => accept::record_strict(&mut o, &tier, seed),
                "reenc" => accept::record_reenc(&mut o, &tier, seed),
                "decoded" => accept::record_decoded(&mut o, &tier, seed),
                _ => accept::record_cross(&mut o, &tier, seed),
            }
            let n = o.seq;
            let shards = o.finish();
            println!("{{\"events\":{n},\"shards\":{shards}}}");
        }
        ("record", "vectors") => {
            let mut o = out::Out::new(&outp, shard);
            wire::record_vectors(&mut o, &get("in", ""), &get("mode", "roundtrip"), seed);
            let n = o.seq;
            let shards = o.finish();
            println!("{{\"events\":{n},\"shards\":{shards}}}");
        }
        ("record", "pollimpl") => {
            let mut o = out::Out::new(&outp, shard);
            frontends::record_pollimpl(&mut o, &tier, seed, &get("fam", "v3"));
            let n = o.seq;
            let shards = o.finish();
            println!("{{\"events\":{n},\"shards\":{shards}}}");
        }
        ("record", "api") => {
            let mut o = out::Out::new(&outp, shard);
            api::record_api(&mut o, seed);
            let n = o.seq;
            let shards = o.finish();
            println!("{{\"events\":{n},\"shards\":{shards}}}");
        }
        ("record", "pid") => {
            let mut o = out::Out::new(&outp, shard);
            arith::record_pid(&mut o, &tier);
            let n = o.seq;
            let shards = o.finish();
            println!("{{\"events\":{n},\"shards\":{shards}}}");
        }
        _ => {
            eprintln!("unknown command {cmd} {area}");
            std::process::exit(2);
        }
    }
}
