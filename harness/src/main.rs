//! verif-harness: drives the real mqtt-proto code and records / replays events for the TLA+
//! specification suite under /verif/spec.  See /verif/DESIGN.md section 4.

#![allow(dead_code)]

mod arith;
mod fam;
mod io;
mod model;
mod out;
mod rng;
mod topic;

use std::collections::HashMap;

fn main() {
    // a panic inside the library is data (caught by io::guarded); keep the default hook quiet
    std::panic::set_hook(Box::new(|_| {}));
    let args: Vec<String> = std::env::args().collect();
    if args.len() < 3 {
        eprintln!("usage: verif-harness record <area> [--key value]...");
        std::process::exit(2);
    }
    let cmd = args[1].as_str();
    let area = args[2].as_str();
    let mut opt: HashMap<String, String> = HashMap::new();
    let mut i = 3;
    while i + 1 < args.len() {
        opt.insert(args[i].trim_start_matches("--").to_string(), args[i + 1].clone());
        i += 2;
    }
    let get = |k: &str, d: &str| opt.get(k).cloned().unwrap_or_else(|| d.to_string());
    let seed: u64 = get("seed", "1").parse().expect("seed");
    let tier = get("tier", "quick");
    let outp = get("out", "trace.ndjson");
    let shard: u64 = get("shard", "0").parse().expect("shard");
    match (cmd, area) {
        ("record", "varint") => {
            let mut o = out::Out::new(&outp, shard);
            arith::record_varint(&mut o, &tier, seed);
            let n = o.seq;
            let shards = o.finish();
            println!("{{\"events\":{n},\"shards\":{shards}}}");
        }
        ("record", "topic") => {
            let mut o = out::Out::new(&outp, shard);
            topic::record_topic(&mut o, &tier, seed);
            let n = o.seq;
            let shards = o.finish();
            println!("{{\"events\":{n},\"shards\":{shards}}}");
        }
        ("record", "pid") => {
            let mut o = out::Out::new(&outp, shard);
            arith::record_pid(&mut o, &tier);
            let n = o.seq;
            let shards = o.finish();
            println!("{{\"events\":{n},\"shards\":{shards}}}");
        }
        _ => {
            eprintln!("unknown command {cmd} {area}");
            std::process::exit(2);
        }
    }
}
