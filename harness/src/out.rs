//! ndjson event sink: one event per line, numbered, closed by an `End` sentinel so that a
//! truncated trace (crash of the harness) is distinguishable from a complete one.

use std::fs::File;
use std::io::{BufWriter, Write};

use serde_json::{json, Value as J};

pub const BYTES_PER_SHARD: u64 = 48 << 20;

pub struct Out {
    w: BufWriter<File>,
    pub seq: u64,
    /// rotate into shards of this many events (0 = single file)
    shard: u64,
    base: String,
    idx: u64,
    in_shard: u64,
    /// bytes written to the current shard: a shard is also closed when it grows past BYTES_PER_SHARD (the trace
    /// validator reads a whole shard into memory)
    bytes_in_shard: u64,
    /// while set, events of one run are kept together (no rotation between them)
    pub hold: bool,
}

impl Out {
    pub fn new(path: &str, shard: u64) -> Out {
        let first = if shard > 0 { format!("{path}.0") } else { path.to_string() };
        Out {
            w: BufWriter::with_capacity(1 << 20, File::create(&first).expect("create trace file")),
            seq: 0,
            shard,
            base: path.to_string(),
            idx: 0,
            in_shard: 0,
            bytes_in_shard: 0,
            hold: false,
        }
    }
    fn full(&self) -> bool {
        self.shard > 0 && (self.in_shard >= self.shard || self.bytes_in_shard >= BYTES_PER_SHARD)
    }
    pub fn ev(&mut self, mut j: J) {
        if self.full() && !self.hold {
            self.rotate();
        }
        self.seq += 1;
        self.in_shard += 1;
        j["seq"] = J::from(self.seq);
        let line = serde_json::to_vec(&j).expect("serialise event");
        self.bytes_in_shard += line.len() as u64 + 1;
        self.w.write_all(&line).expect("write event");
        self.w.write_all(b"\n").expect("write event");
    }
    /// a run boundary: the only place where a trace of runs may be split
    pub fn boundary(&mut self) {
        if self.full() {
            self.rotate();
        }
    }
    fn rotate(&mut self) {
        self.finish_file();
        self.idx += 1;
        self.in_shard = 0;
        self.bytes_in_shard = 0;
        let p = format!("{}.{}", self.base, self.idx);
        self.w = BufWriter::with_capacity(1 << 20, File::create(&p).expect("create shard"));
    }
    fn finish_file(&mut self) {
        let j = json!({"ev": "End", "seq": self.seq + 1});
        serde_json::to_writer(&mut self.w, &j).expect("write end");
        self.w.write_all(b"\n").expect("write end");
        self.w.flush().expect("flush");
    }
    pub fn finish(mut self) -> u64 {
        self.finish_file();
        self.idx + 1
    }
}
