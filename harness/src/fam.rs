//! The two codec families behind one trait, so every driver is written once.

use std::fmt::Debug;
use std::io;

use mqtt_proto::{v3, v5, Encodable, PollHeader, VarBytes};
use serde_json::Value as J;
use tokio::io::{AsyncRead, AsyncWrite};

use crate::io::CountingSink;
use crate::model::{self, R};

pub struct Part {
    pub name: String,
    pub written: usize,
    pub reported: usize,
    pub err: Option<String>,
}

fn part<E: Encodable>(name: &str, e: &E) -> Part {
    let mut c = CountingSink::default();
    let r = e.encode(&mut c);
    Part {
        name: name.to_string(),
        written: c.n,
        reported: e.encode_len(),
        err: r.err().map(|e| format!("{:?}", e.kind())),
    }
}

#[allow(async_fn_in_trait)]
pub trait Fam: 'static {
    const NAME: &'static str;
    type Packet: Clone + PartialEq + Debug;
    type Error: Debug + From<io::Error> + From<mqtt_proto::Error>;
    type Header: PollHeader<Error = Self::Error, Packet = Self::Packet> + Copy + Unpin + Debug;

    fn to_json(p: &Self::Packet) -> J;
    fn from_json(j: &J) -> R<Self::Packet>;
    fn err_json(e: &Self::Error) -> J;
    fn is_eof(e: &Self::Error) -> bool;
    fn into_io(e: Self::Error) -> Option<io::Error>;
    fn decode(b: &[u8]) -> Result<Option<Self::Packet>, Self::Error>;
    async fn decode_async<T: AsyncRead + Unpin>(r: &mut T) -> Result<Self::Packet, Self::Error>;
    fn encode(p: &Self::Packet) -> Result<VarBytes, mqtt_proto::Error>;
    fn encode_len(p: &Self::Packet) -> Result<usize, Self::Error>;
    async fn encode_async<T: AsyncWrite + Unpin>(
        p: &Self::Packet,
        w: &mut T,
    ) -> Result<(), Self::Error>;
    fn header_decode(b: &[u8]) -> Result<Self::Header, Self::Error>;
    async fn header_decode_async<T: AsyncRead + Unpin>(
        r: &mut T,
    ) -> Result<Self::Header, Self::Error>;
    fn header_json(h: &Self::Header) -> J;
    fn header_new_with(hd: u8, rl: u32) -> Result<Self::Header, Self::Error>;
    /// streaming `Encodable::encode` of the packet body into `w`; `None` for the body-less types
    /// that the packet encoder emits as fixed arrays without an `Encodable` body
    fn body_encode<W: io::Write>(p: &Self::Packet, w: &mut W) -> Option<(io::Result<()>, usize)>;
    /// every separately encodable part with bytes written vs `encode_len()`
    fn parts(p: &Self::Packet) -> Vec<Part>;
    fn type_name(p: &Self::Packet) -> String;
}

pub struct V3;
pub struct V5;

impl Fam for V3 {
    const NAME: &'static str = "v3";
    type Packet = v3::Packet;
    type Error = mqtt_proto::Error;
    type Header = v3::Header;

    fn to_json(p: &Self::Packet) -> J {
        model::v3_to_json(p)
    }
    fn from_json(j: &J) -> R<Self::Packet> {
        model::v3_from_json(j)
    }
    fn err_json(e: &Self::Error) -> J {
        model::err3_to_json(e)
    }
    fn is_eof(e: &Self::Error) -> bool {
        e.is_eof()
    }
    fn into_io(e: Self::Error) -> Option<io::Error> {
        Some(e.into())
    }
    fn decode(b: &[u8]) -> Result<Option<Self::Packet>, Self::Error> {
        v3::Packet::decode(b)
    }
    async fn decode_async<T: AsyncRead + Unpin>(r: &mut T) -> Result<Self::Packet, Self::Error> {
        v3::Packet::decode_async(r).await
    }
    fn encode(p: &Self::Packet) -> Result<VarBytes, mqtt_proto::Error> {
        p.encode()
    }
    fn encode_len(p: &Self::Packet) -> Result<usize, Self::Error> {
        p.encode_len()
    }
    async fn encode_async<T: AsyncWrite + Unpin>(
        p: &Self::Packet,
        w: &mut T,
    ) -> Result<(), Self::Error> {
        p.encode_async(w).await
    }
    fn header_decode(b: &[u8]) -> Result<Self::Header, Self::Error> {
        v3::Header::decode(b)
    }
    async fn header_decode_async<T: AsyncRead + Unpin>(
        r: &mut T,
    ) -> Result<Self::Header, Self::Error> {
        v3::Header::decode_async(r).await
    }
    fn header_json(h: &Self::Header) -> J {
        model::header3_to_json(h)
    }
    fn header_new_with(hd: u8, rl: u32) -> Result<Self::Header, Self::Error> {
        v3::Header::new_with(hd, rl)
    }
    fn body_encode<W: io::Write>(p: &Self::Packet, w: &mut W) -> Option<(io::Result<()>, usize)> {
        use v3::Packet as P;
        Some(match p {
            P::Connect(b) => (b.encode(w), b.encode_len()),
            P::Publish(b) => (b.encode(w), b.encode_len()),
            P::Subscribe(b) => (b.encode(w), b.encode_len()),
            P::Suback(b) => (b.encode(w), b.encode_len()),
            P::Unsubscribe(b) => (b.encode(w), b.encode_len()),
            _ => return None,
        })
    }
    fn parts(p: &Self::Packet) -> Vec<Part> {
        use v3::Packet as P;
        let mut v = Vec::new();
        match p {
            P::Connect(b) => {
                v.push(part("v3.Connect", b));
                v.push(part("Protocol", &b.protocol));
                if let Some(w) = &b.last_will {
                    v.push(part("v3.LastWill", w));
                }
            }
            P::Publish(b) => v.push(part("v3.Publish", b)),
            P::Subscribe(b) => v.push(part("v3.Subscribe", b)),
            P::Suback(b) => v.push(part("v3.Suback", b)),
            P::Unsubscribe(b) => v.push(part("v3.Unsubscribe", b)),
            _ => {}
        }
        v
    }
    fn type_name(p: &Self::Packet) -> String {
        format!("{:?}", p.get_type())
    }
}

impl Fam for V5 {
    const NAME: &'static str = "v5";
    type Packet = v5::Packet;
    type Error = v5::ErrorV5;
    type Header = v5::Header;

    fn to_json(p: &Self::Packet) -> J {
        model::v5_to_json(p)
    }
    fn from_json(j: &J) -> R<Self::Packet> {
        model::v5_from_json(j)
    }
    fn err_json(e: &Self::Error) -> J {
        model::err5_to_json(e)
    }
    fn is_eof(e: &Self::Error) -> bool {
        e.is_eof()
    }
    fn into_io(e: Self::Error) -> Option<io::Error> {
        // ErrorV5 has no direct conversion; the codec's conversion exists for the common error
        match e {
            v5::ErrorV5::Common(c) => Some(c.into()),
            _ => None,
        }
    }
    fn decode(b: &[u8]) -> Result<Option<Self::Packet>, Self::Error> {
        v5::Packet::decode(b)
    }
    async fn decode_async<T: AsyncRead + Unpin>(r: &mut T) -> Result<Self::Packet, Self::Error> {
        v5::Packet::decode_async(r).await
    }
    fn encode(p: &Self::Packet) -> Result<VarBytes, mqtt_proto::Error> {
        p.encode()
    }
    fn encode_len(p: &Self::Packet) -> Result<usize, Self::Error> {
        p.encode_len()
    }
    async fn encode_async<T: AsyncWrite + Unpin>(
        p: &Self::Packet,
        w: &mut T,
    ) -> Result<(), Self::Error> {
        p.encode_async(w).await
    }
    fn header_decode(b: &[u8]) -> Result<Self::Header, Self::Error> {
        v5::Header::decode(b)
    }
    async fn header_decode_async<T: AsyncRead + Unpin>(
        r: &mut T,
    ) -> Result<Self::Header, Self::Error> {
        v5::Header::decode_async(r).await
    }
    fn header_json(h: &Self::Header) -> J {
        model::header5_to_json(h)
    }
    fn header_new_with(hd: u8, rl: u32) -> Result<Self::Header, Self::Error> {
        v5::Header::new_with(hd, rl)
    }
    fn body_encode<W: io::Write>(p: &Self::Packet, w: &mut W) -> Option<(io::Result<()>, usize)> {
        use v5::Packet as P;
        Some(match p {
            P::Connect(b) => (b.encode(w), b.encode_len()),
            P::Connack(b) => (b.encode(w), b.encode_len()),
            P::Publish(b) => (b.encode(w), b.encode_len()),
            P::Puback(b) => (b.encode(w), b.encode_len()),
            P::Pubrec(b) => (b.encode(w), b.encode_len()),
            P::Pubrel(b) => (b.encode(w), b.encode_len()),
            P::Pubcomp(b) => (b.encode(w), b.encode_len()),
            P::Subscribe(b) => (b.encode(w), b.encode_len()),
            P::Suback(b) => (b.encode(w), b.encode_len()),
            P::Unsubscribe(b) => (b.encode(w), b.encode_len()),
            P::Unsuback(b) => (b.encode(w), b.encode_len()),
            P::Disconnect(b) => (b.encode(w), b.encode_len()),
            P::Auth(b) => (b.encode(w), b.encode_len()),
            P::Pingreq | P::Pingresp => return None,
        })
    }
    fn parts(p: &Self::Packet) -> Vec<Part> {
        use v5::Packet as P;
        let mut v = Vec::new();
        match p {
            P::Connect(b) => {
                v.push(part("v5.Connect", b));
                v.push(part("Protocol", &b.protocol));
                v.push(part("v5.ConnectProperties", &b.properties));
                if let Some(w) = &b.last_will {
                    v.push(part("v5.LastWill", w));
                    v.push(part("v5.WillProperties", &w.properties));
                }
            }
            P::Connack(b) => {
                v.push(part("v5.Connack", b));
                v.push(part("v5.ConnackProperties", &b.properties));
            }
            P::Publish(b) => {
                v.push(part("v5.Publish", b));
                v.push(part("v5.PublishProperties", &b.properties));
            }
            P::Puback(b) => {
                v.push(part("v5.Puback", b));
                v.push(part("v5.PubackProperties", &b.properties));
            }
            P::Pubrec(b) => {
                v.push(part("v5.Pubrec", b));
                v.push(part("v5.PubrecProperties", &b.properties));
            }
            P::Pubrel(b) => {
                v.push(part("v5.Pubrel", b));
                v.push(part("v5.PubrelProperties", &b.properties));
            }
            P::Pubcomp(b) => {
                v.push(part("v5.Pubcomp", b));
                v.push(part("v5.PubcompProperties", &b.properties));
            }
            P::Subscribe(b) => {
                v.push(part("v5.Subscribe", b));
                v.push(part("v5.SubscribeProperties", &b.properties));
            }
            P::Suback(b) => {
                v.push(part("v5.Suback", b));
                v.push(part("v5.SubackProperties", &b.properties));
            }
            P::Unsubscribe(b) => {
                v.push(part("v5.Unsubscribe", b));
                v.push(part("v5.UnsubscribeProperties", &b.properties));
            }
            P::Unsuback(b) => {
                v.push(part("v5.Unsuback", b));
                v.push(part("v5.UnsubackProperties", &b.properties));
            }
            P::Disconnect(b) => {
                v.push(part("v5.Disconnect", b));
                v.push(part("v5.DisconnectProperties", &b.properties));
            }
            P::Auth(b) => {
                v.push(part("v5.Auth", b));
                v.push(part("v5.AuthProperties", &b.properties));
            }
            P::Pingreq | P::Pingresp => {}
        }
        v
    }
    fn type_name(p: &Self::Packet) -> String {
        format!("{:?}", p.get_type())
    }
}
