//! Drivers of the wire-level properties on seeded rich packets: C01 (round trip), C02 (lengths),
//! C09 (encoder entry points), C10 (conformance of the emitted bytes).

use std::convert::TryFrom;

use bytes::Bytes;
use mqtt_proto::{v3, v5, QosPid, TopicName};
use serde_json::{json, Value as J};

use crate::codec::*;
use crate::fam::{Fam, V3, V5};
use crate::gen::{Budget, GenFam};
use crate::io::{guarded, WStep};
use crate::model::*;
use crate::out::Out;
use crate::rng::Rng;

fn budget(tier: &str) -> Budget {
    if tier == "thorough" {
        Budget { big: 4000, huge: 120 }
    } else {
        Budget { big: 250, huge: 6 }
    }
}

fn packets<F: GenFam>(rng: &mut Rng, b: &mut Budget, n: usize, mut f: impl FnMut(&mut Rng, &F::Packet)) {
    let types = F::types();
    for i in 0..n {
        let t = types[i % types.len()];
        let p = F::gen(rng, b, t);
        f(rng, &p);
    }
}

// ------------------------------------------------------------------------------------------------
// C01
fn roundtrip_event<F: Fam>(out: &mut Out, p: &F::Packet) {
    let (e, bytes) = enc::<F>(p);
    let mut ev = json!({"ev": "RoundTrip", "fam": F::NAME, "packet": F::to_json(p), "enc": e});
    if let Some(b) = bytes {
        ev["dec_block"] = dec_block::<F>(&b);
        ev["dec_async"] = dec_async::<F>(&b, usize::MAX);
        ev["dec_poll"] = dec_poll::<F>(&b, usize::MAX);
        // "encoding" is every encoder entry point: what the async encoder hands to a socket-like sink (vectored writes,
        // a short first write) must decode to the packet as well
        let a = crate::codec::enc_async_on::<F>(p, vec![WStep::Accept(b.len() / 2 + 1)], WStep::Accept(usize::MAX), None, true, None);
        let same = a["res"]["k"] == "ok" && a["sink"] == jbytes(&b);
        if same {
            ev["dec_of_async_enc"] = ev["dec_block"].clone();
        } else if a["res"]["k"] == "ok" {
            let sb: Vec<u8> = a["sink"].as_array().map(|x| x.iter().map(|y| y.as_u64().unwrap_or(0) as u8).collect()).unwrap_or_default();
            ev["dec_of_async_enc"] = dec_block::<F>(&sb);
        } else {
            ev["dec_of_async_enc"] = a["res"].clone();
        }
    }
    out.ev(ev);
}

/// packets whose remaining length / property length sits exactly on and around the width boundaries
pub fn boundary_packets_v3(tier: &str) -> Vec<v3::Packet> {
    let mut v = Vec::new();
    let mut bs = vec![127usize, 16383];
    if tier == "thorough" {
        bs.push(2097151);
    }
    for b in bs {
        for d in 0..6usize {
            let target = b - 1 + d; // b-1 .. b+4
            v.push(publish_v3(3, target - 2 - 3, false));
            v.push(publish_v3(1, target - 4 - 1, true));
        }
    }
    if tier != "core" {
        v.extend(sweep_packets_v3());
    }
    v
}
/// length-prefixed fields of exactly 65,534 and 65,535 bytes, one field kind per packet
pub fn max_field_packets_v3() -> Vec<v3::Packet> {
    let mut v = Vec::new();
    for n in [65534usize, 65535] {
        v.push(publish_v3(n, 3, false));
        let mut c = v3::Connect::new(std::sync::Arc::new("c".repeat(n)), 1);
        v.push(v3::Packet::Connect(c.clone()));
        c.client_id = std::sync::Arc::new("c".to_string());
        c.username = Some(std::sync::Arc::new("é".repeat(n / 2) + if n % 2 == 1 { "x" } else { "" }));
        c.password = Some(Bytes::from(vec![0xABu8; n]));
        v.push(v3::Packet::Connect(c));
        v.push(v3::Packet::Unsubscribe(v3::Unsubscribe::new(pid1(), vec![mqtt_proto::TopicFilter::try_from("f".repeat(n)).unwrap()])));
    }
    v
}
pub fn max_field_packets_v5() -> Vec<v5::Packet> {
    let mut v = Vec::new();
    for n in [65534usize, 65535] {
        v.push(publish_v5(n, 3));
        let mut p = v5::Publish::new(QosPid::Level0, TopicName::try_from("t".to_string()).unwrap(), Bytes::from_static(b"p"));
        p.properties.correlation_data = Some(Bytes::from(vec![7u8; n]));
        v.push(v5::Packet::Publish(p));
        let mut a = v5::Auth::new(v5::AuthReasonCode::ContinueAuthentication);
        a.properties.auth_data = Some(Bytes::from(vec![1u8; n]));
        v.push(v5::Packet::Auth(a));
        let mut d = v5::Disconnect::new(v5::DisconnectReasonCode::NormalDisconnect);
        d.properties.user_properties = vec![v5::UserProperty { name: std::sync::Arc::new("k".repeat(n)), value: std::sync::Arc::new(String::new()) }];
        v.push(v5::Packet::Disconnect(d));
    }
    v
}

pub fn boundary_packets_v5(tier: &str) -> Vec<v5::Packet> {
    let mut v = Vec::new();
    let mut bs = vec![127usize, 16383];
    if tier == "thorough" {
        bs.push(2097151);
    }
    for b in bs {
        for d in 0..6usize {
            let target = b - 1 + d;
            v.push(publish_v5(3, target - 3 - 3));
            // property length on the boundary: PUBACK with a reason string (1 + 2 + n bytes of properties)
            if target <= 65535 {
                let mut a = v5::Puback::new(pid1(), v5::PubackReasonCode::Success);
                a.properties.reason_string = Some(std::sync::Arc::new("r".repeat(target - 3)));
                v.push(v5::Packet::Puback(a));
                let mut d5 = v5::Disconnect::new(v5::DisconnectReasonCode::ServerMoved);
                d5.properties.server_reference = Some(std::sync::Arc::new("s".repeat(target - 3)));
                v.push(v5::Packet::Disconnect(d5));
            }
        }
    }
    v.extend(prop_boundary_packets_v5());
    if tier != "core" {
        v.extend(sweep_packets_v5());
    }
    v
}

/// every v5 packet type that has a property section, with ONE user property sized so that the Property Length sits on
/// and around the 1/2-byte and 2/3-byte width boundaries (each type has its own encode arm for the section)
pub fn prop_boundary_packets_v5() -> Vec<v5::Packet> {
    use std::sync::Arc;
    let mut v = Vec::new();
    let filter = || mqtt_proto::TopicFilter::try_from("a/b".to_string()).unwrap();
    for b in [127usize, 16383] {
        for d in 0..5usize {
            let target = b - 2 + d; // b-2 .. b+2
            let up = |extra: usize| {
                // section = 1 (id) + 2 + name + 2 + 0, plus `extra` bytes of other properties already there
                vec![v5::UserProperty { name: Arc::new("n".repeat(target - 5 - extra)), value: Arc::new(String::new()) }]
            };
            let mut c = v5::Connect::new(Arc::new("c".to_string()), 10);
            c.properties.user_properties = up(0);
            v.push(v5::Packet::Connect(c));
            let mut c = v5::Connect::new(Arc::new("c".to_string()), 10);
            let mut w = v5::LastWill::new(mqtt_proto::QoS::Level1, TopicName::try_from("w".to_string()).unwrap(), Bytes::from_static(b"m"));
            w.properties.user_properties = up(0);
            c.last_will = Some(w);
            v.push(v5::Packet::Connect(c));
            let mut k = v5::Connack::new(false, v5::ConnectReasonCode::Success);
            k.properties.user_properties = up(0);
            v.push(v5::Packet::Connack(k));
            let mut p = v5::Publish::new(QosPid::Level0, TopicName::try_from("t".to_string()).unwrap(), Bytes::from_static(b"p"));
            p.properties.user_properties = up(0);
            v.push(v5::Packet::Publish(p));
            let mut a = v5::Puback::new(pid1(), v5::PubackReasonCode::NoMatchingSubscribers);
            a.properties.user_properties = up(0);
            v.push(v5::Packet::Puback(a));
            let mut a = v5::Pubrec::new(pid1(), v5::PubrecReasonCode::Success);
            a.properties.user_properties = up(0);
            v.push(v5::Packet::Pubrec(a));
            let mut a = v5::Pubrel::new(pid1(), v5::PubrelReasonCode::Success);
            a.properties.user_properties = up(0);
            v.push(v5::Packet::Pubrel(a));
            let mut a = v5::Pubcomp::new(pid1(), v5::PubcompReasonCode::PacketIdentifierNotFound);
            a.properties.user_properties = up(0);
            v.push(v5::Packet::Pubcomp(a));
            let mut sb = v5::Subscribe::new(pid1(), vec![(filter(), v5::SubscriptionOptions::new(mqtt_proto::QoS::Level1))]);
            sb.properties.user_properties = up(0);
            v.push(v5::Packet::Subscribe(sb));
            let mut sa = v5::Suback::new(pid1(), vec![v5::SubscribeReasonCode::GrantedQoS1]);
            sa.properties.user_properties = up(0);
            v.push(v5::Packet::Suback(sa));
            let mut us = v5::Unsubscribe::new(pid1(), vec![filter()]);
            us.properties.user_properties = up(0);
            v.push(v5::Packet::Unsubscribe(us));
            let mut ua = v5::Unsuback::new(pid1(), vec![v5::UnsubscribeReasonCode::Success]);
            ua.properties.user_properties = up(0);
            v.push(v5::Packet::Unsuback(ua));
            let mut dc = v5::Disconnect::new(v5::DisconnectReasonCode::NormalDisconnect);
            dc.properties.user_properties = up(0);
            v.push(v5::Packet::Disconnect(dc));
            let mut au = v5::Auth::new(v5::AuthReasonCode::Success);
            au.properties.user_properties = up(0);
            v.push(v5::Packet::Auth(au));
        }
    }
    v
}

/// EVERY length 0..=300 of the fields a stack buffer or a small-size fast path would be sized for, and every list
/// length 0..=40: a boundary that is nobody's power of two (a 40-byte scratch buffer, 124 = 128 - 4) is still hit
pub fn sweep_packets_v3() -> Vec<v3::Packet> {
    use std::sync::Arc;
    let mut v = Vec::new();
    for n in 0..=300usize {
        for pv in [mqtt_proto::Protocol::V310, mqtt_proto::Protocol::V311] {
            let mut c = v3::Connect::new(Arc::new("i".repeat(n)), 60);
            c.protocol = pv;
            if n % 3 == 0 {
                c.username = Some(Arc::new("u".repeat(n / 3)));
            }
            v.push(v3::Packet::Connect(c));
        }
        if n >= 1 {
            v.push(publish_v3(n, 2, true));
        }
    }
    let f = |i: usize| mqtt_proto::TopicFilter::try_from(format!("f/{i}")).unwrap();
    for n in 0..=40usize {
        if n >= 1 {
            v.push(v3::Packet::Subscribe(v3::Subscribe { pid: pid1(), topics: (0..n).map(|i| (f(i), mqtt_proto::QoS::Level1)).collect() }));
            v.push(v3::Packet::Unsubscribe(v3::Unsubscribe { pid: pid1(), topics: (0..n).map(f).collect() }));
        }
        v.push(v3::Packet::Suback(v3::Suback { pid: pid1(), topics: (0..n).map(|i| if i % 5 == 4 { v3::SubscribeReturnCode::Failure } else { v3::SubscribeReturnCode::MaxLevel1 }).collect() }));
    }
    // list lengths on and around the powers of two a batching loop would use
    for n in COUNT_BOUNDARIES {
        v.push(v3::Packet::Subscribe(v3::Subscribe { pid: pid1(), topics: (0..n).map(|i| (f(i), mqtt_proto::QoS::Level1)).collect() }));
        v.push(v3::Packet::Unsubscribe(v3::Unsubscribe { pid: pid1(), topics: (0..n).map(f).collect() }));
        v.push(v3::Packet::Suback(v3::Suback { pid: pid1(), topics: (0..n).map(|i| if i % 7 == 6 { v3::SubscribeReturnCode::Failure } else { v3::SubscribeReturnCode::MaxLevel2 }).collect() }));
    }
    v
}
pub const COUNT_BOUNDARIES: [usize; 12] = [63, 64, 65, 127, 128, 129, 255, 256, 257, 511, 512, 513];
pub fn sweep_packets_v5() -> Vec<v5::Packet> {
    use std::sync::Arc;
    let mut v = Vec::new();
    let up = |a: usize, b: usize| v5::UserProperty { name: Arc::new("n".repeat(a)), value: Arc::new("v".repeat(b)) };
    for n in 0..=300usize {
        v.push(v5::Packet::Connect(v5::Connect::new(Arc::new("i".repeat(n)), 60)));
        if n >= 1 {
            let mut p = v5::Publish::new(QosPid::Level1(pid1()), TopicName::try_from("t".repeat(n)).unwrap(), Bytes::from_static(b"pl"));
            p.properties.content_type = if n % 2 == 0 { Some(Arc::new("c".repeat(n / 2))) } else { None };
            v.push(v5::Packet::Publish(p));
        }
        // a user property whose two halves ADD UP to n
        let mut splits = vec![(n / 2, n - n / 2)];
        if n % 4 == 0 {
            splits.push((0, n));
            splits.push((n, 0));
            splits.push((1, n.saturating_sub(1)));
        }
        for (a, b) in splits {
            let mut p = v5::Publish::new(QosPid::Level0, TopicName::try_from("t".to_string()).unwrap(), Bytes::from_static(b"p"));
            p.properties.user_properties = vec![up(a, b)];
            v.push(v5::Packet::Publish(p));
            if n % 4 == 0 {
                let mut u = v5::Unsubscribe::new(pid1(), vec![mqtt_proto::TopicFilter::try_from("a/b".to_string()).unwrap()]);
                u.properties.user_properties = vec![up(a, b), up(1, 1)];
                v.push(v5::Packet::Unsubscribe(u));
            }
        }
        let mut a = v5::Puback::new(pid1(), v5::PubackReasonCode::Success);
        a.properties.reason_string = Some(Arc::new("r".repeat(n)));
        v.push(v5::Packet::Puback(a));
    }
    let f = |i: usize| mqtt_proto::TopicFilter::try_from(format!("f/{i}")).unwrap();
    for n in 0..=40usize {
        if n >= 1 {
            v.push(v5::Packet::Subscribe(v5::Subscribe::new(pid1(), (0..n).map(|i| (f(i), v5::SubscriptionOptions::new(mqtt_proto::QoS::Level1))).collect())));
            v.push(v5::Packet::Unsubscribe(v5::Unsubscribe::new(pid1(), (0..n).map(f).collect())));
        }
        v.push(v5::Packet::Suback(v5::Suback::new(pid1(), (0..n).map(|i| if i % 5 == 4 { v5::SubscribeReasonCode::NotAuthorized } else { v5::SubscribeReasonCode::GrantedQoS2 }).collect())));
        v.push(v5::Packet::Unsuback(v5::Unsuback::new(pid1(), (0..n).map(|i| if i % 3 == 2 { v5::UnsubscribeReasonCode::NoSubscriptionExisted } else { v5::UnsubscribeReasonCode::Success }).collect())));
    }
    for n in COUNT_BOUNDARIES {
        v.push(v5::Packet::Subscribe(v5::Subscribe::new(pid1(), (0..n).map(|i| (f(i), v5::SubscriptionOptions::new(mqtt_proto::QoS::Level1))).collect())));
        v.push(v5::Packet::Unsubscribe(v5::Unsubscribe::new(pid1(), (0..n).map(f).collect())));
        v.push(v5::Packet::Suback(v5::Suback::new(pid1(), (0..n).map(|i| if i % 7 == 6 { v5::SubscribeReasonCode::NotAuthorized } else { v5::SubscribeReasonCode::GrantedQoS0 }).collect())));
        v.push(v5::Packet::Unsuback(v5::Unsuback::new(pid1(), (0..n).map(|_| v5::UnsubscribeReasonCode::Success).collect())));
    }
    // numbers of user properties around 128 / 256 (a cap, a u8 counter), in the packet types that size what follows
    // the property section from the decoded set
    for n in [127usize, 128, 129, 130, 255, 256, 257, 300] {
        let ups: Vec<v5::UserProperty> = (0..n).map(|i| up(1 + i % 2, i % 3)).collect();
        let mut p = v5::Publish::new(QosPid::Level1(pid1()), TopicName::try_from("t".to_string()).unwrap(), Bytes::from_static(b"payload"));
        p.properties.user_properties = ups.clone();
        v.push(v5::Packet::Publish(p));
        let mut sa = v5::Suback::new(pid1(), vec![v5::SubscribeReasonCode::GrantedQoS1, v5::SubscribeReasonCode::GrantedQoS2]);
        sa.properties.user_properties = ups.clone();
        v.push(v5::Packet::Suback(sa));
        let mut ua = v5::Unsuback::new(pid1(), vec![v5::UnsubscribeReasonCode::Success]);
        ua.properties.user_properties = ups.clone();
        v.push(v5::Packet::Unsuback(ua));
        let mut sb = v5::Subscribe::new(pid1(), vec![(f(1), v5::SubscriptionOptions::new(mqtt_proto::QoS::Level1))]);
        sb.properties.user_properties = ups.clone();
        v.push(v5::Packet::Subscribe(sb));
        let mut us = v5::Unsubscribe::new(pid1(), vec![f(2)]);
        us.properties.user_properties = ups;
        v.push(v5::Packet::Unsubscribe(us));
    }
    // name + value of a user property adding up to the sizes a scratch buffer would have, +/- 8
    for base in [512usize, 1024, 2048, 4096] {
        for s in base - 8..=base + 8 {
            let mut p = v5::Publish::new(QosPid::Level0, TopicName::try_from("t".to_string()).unwrap(), Bytes::from_static(b"p"));
            p.properties.user_properties = vec![up(4, s - 4)];
            v.push(v5::Packet::Publish(p));
            let mut a = v5::Puback::new(pid1(), v5::PubackReasonCode::Success);
            a.properties.user_properties = vec![up(s / 2, s - s / 2)];
            v.push(v5::Packet::Puback(a));
        }
    }
    v
}

pub fn record_roundtrip(out: &mut Out, tier: &str, seed: u64) {
    attempt_oversized();
    size_sweep(out);
    big_shapes(out, tier, if cfg!(debug_assertions) { "debug" } else { "release" });
    let n = if tier == "thorough" { 60000 } else { 2400 };
    let mut rng = Rng::new(seed ^ 0xC01);
    let mut b = budget(tier);
    for p in boundary_packets_v3("quick").into_iter().chain(max_field_packets_v3()) {
        roundtrip_event::<V3>(out, &p);
    }
    for p in boundary_packets_v5("quick").into_iter().chain(max_field_packets_v5()) {
        roundtrip_event::<V5>(out, &p);
    }
    for p in all_code_packets_v3() {
        roundtrip_event::<V3>(out, &p);
    }
    for p in all_code_packets_v5() {
        roundtrip_event::<V5>(out, &p);
    }
    for (p3, p5) in threshold_publishes() {
        roundtrip_event::<V3>(out, &p3);
        roundtrip_event::<V5>(out, &p5);
    }
    packets::<V3>(&mut rng, &mut b, n, |_r, p| roundtrip_event::<V3>(out, p));
    packets::<V5>(&mut rng, &mut b, n * 2, |_r, p| roundtrip_event::<V5>(out, p));
}

// ------------------------------------------------------------------------------------------------
// C02
fn lens_event<F: Fam>(out: &mut Out, p: &F::Packet, profile: &str) {
    // a history: the streaming encoder of the same value has just FAILED on this thread (a sink that breaks in the
    // middle of the body); the lengths measured afterwards must not depend on it
    if let Ok(Some((_, elen))) = guarded(|| F::body_encode(p, &mut crate::io::CountingSink::default())) {
        if elen > 1 {
            let _ = enc_stream::<F>(p, 7, Some((elen / 2, WStep::Err(std::io::ErrorKind::BrokenPipe))));
            let _ = enc_stream::<F>(p, usize::MAX, Some((elen - 1, WStep::Err(std::io::ErrorKind::TimedOut))));
        }
    }
    let (e, bytes) = enc::<F>(p);
    let mut ev = json!({"ev": "Lens", "fam": F::NAME, "profile": profile, "packet": F::to_json(p),
                        "encode_len": encode_len::<F>(p), "parts": parts_json::<F>(p)});
    match bytes {
        Some(b) => {
            ev["enc"] = json!({"k": "ok", "len": b.len(), "hdr": jbytes(&b[..b.len().min(5)])});
            // the async encoder "emits" into a sink: one whose first write takes seven bytes (vectored on every other
            // packet) must end up with as many bytes as the packet reports
            let a = crate::codec::enc_async_on::<F>(p, vec![WStep::Accept(7), WStep::Pending], WStep::Accept(usize::MAX), None,
                                                    b.len() % 2 == 1, None);
            ev["enc_async"] = json!({"k": a["res"]["k"], "len": a["sink"].as_array().map_or(0, |x| x.len())});
        }
        None => ev["enc"] = e,
    }
    out.ev(ev);
}

pub fn publish_v3(topic_len: usize, payload_len: usize, qos1: bool) -> v3::Packet {
    v3::Packet::Publish(v3::Publish {
        dup: false,
        retain: false,
        qos_pid: if qos1 { QosPid::Level1(mqtt_proto::Pid::try_from(7).unwrap()) } else { QosPid::Level0 },
        topic_name: TopicName::try_from("t".repeat(topic_len)).unwrap(),
        payload: Bytes::from(vec![0x55u8; payload_len]),
    })
}
pub fn publish_v5(topic_len: usize, payload_len: usize) -> v5::Packet {
    v5::Packet::Publish(v5::Publish {
        dup: false,
        retain: true,
        qos_pid: QosPid::Level0,
        topic_name: TopicName::try_from("t".repeat(topic_len)).unwrap(),
        payload: Bytes::from(vec![0x55u8; payload_len]),
        properties: Default::default(),
    })
}

/// a packet described by its shape only (the payload is `payload_len` equal bytes): sizes straddling the
/// remaining-length width boundaries without megabytes of JSON
fn shape_event<F: Fam>(out: &mut Out, p: &F::Packet, shape: J, profile: &str) {
    let r = guarded(|| F::encode(p));
    let mut ev = json!({"ev": "LensShape", "fam": F::NAME, "profile": profile, "shape": shape,
                        "encode_len": encode_len::<F>(p), "parts": parts_json::<F>(p)});
    ev["enc"] = match r {
        Err(m) => jpanic(&m),
        Ok(Err(e)) => err3_to_json(&e),
        Ok(Ok(vb)) => {
            let b = vb.as_ref();
            let pl = shape["payload_len"].as_u64().unwrap_or(0) as usize;
            let tail_ok = b.len() >= pl && b[b.len() - pl..].iter().all(|x| *x == 0x55);
            json!({"k": "ok", "len": b.len(), "hdr": jbytes(&b[..b.len().min(5)]),
                   "head": jbytes(&b[..b.len().min(5 + 2 + 8)]), "tail_is_payload": tail_ok})
        }
    };
    out.ev(ev);
}

/// Packets too large to travel as JSON: a QoS-0 PUBLISH described by its SHAPE (topic length, payload length, fill byte
/// 0x55).  Encoded once, decoded by the three front-ends, each accepted packet re-encoded; the harness reports
/// per step whether the value equals the original / the bytes equal the first encoding (Packet: PartialEq), the
/// specification checks the sizes, the header bytes and that every step succeeded (C01, C11 at sizes 2^21 .. 2^28).
pub fn big_shape_event<F: Fam>(out: &mut Out, p: &F::Packet, topic_len: usize, payload_len: usize, profile: &str) {
    use crate::io::{drive, RStep, ScriptedReader};
    use mqtt_proto::{GenericPollPacket, GenericPollPacketState};
    let mut ev = json!({"ev": "BigShape", "fam": F::NAME, "profile": profile,
                        "shape": {"t": "Publish", "qos": 0, "topic_len": topic_len, "payload_len": payload_len,
                                  "retain": F::NAME == "v5", "props_len": if F::NAME == "v5" { 1 } else { 0 }}});
    let b: Vec<u8> = match guarded(|| F::encode(p)) {
        Err(m) => {
            ev["enc"] = jpanic(&m);
            out.ev(ev);
            return;
        }
        Ok(Err(e)) => {
            ev["enc"] = err3_to_json(&e);
            out.ev(ev);
            return;
        }
        Ok(Ok(vb)) => vb.as_ref().to_vec(),
    };
    let tail_ok = b.len() >= payload_len && b[b.len() - payload_len..].iter().all(|x| *x == 0x55);
    ev["enc"] = json!({"k": "ok", "len": b.len(), "head": jbytes(&b[..b.len().min(5 + 2 + 8)]), "tail_is_payload": tail_ok});
    let arc = std::sync::Arc::new(b);
    let b: &Vec<u8> = &arc;
    let reenc = |q: &F::Packet| -> J {
        match guarded(|| F::encode(q)) {
            Err(m) => jpanic(&m),
            Ok(Err(e)) => err3_to_json(&e),
            Ok(Ok(vb)) => json!({"k": "ok", "same": vb.as_ref() == &b[..]}),
        }
    };
    let mut decs = Vec::new();
    // blocking
    decs.push(match guarded(|| F::decode(b)) {
        Err(m) => json!({"front": "block", "res": jpanic(&m)}),
        Ok(Ok(Some(q))) => json!({"front": "block", "res": {"k": "ok"}, "eq": q == *p, "reenc": reenc(&q)}),
        Ok(Ok(None)) => json!({"front": "block", "res": {"k": "incomplete"}}),
        Ok(Err(e)) => json!({"front": "block", "res": F::err_json(&e)}),
    });
    // async, in reads of at most 1 MiB + 1 bytes
    let r = guarded(|| {
        let mut rd = ScriptedReader::new(arc.clone(), vec![], RStep::Data((1 << 20) + 1));
        rd.logging = false;
        let (o, _) = drive(F::decode_async(&mut rd), crate::codec::MAX_POLLS);
        (o, rd.pos)
    });
    decs.push(match r {
        Err(m) => json!({"front": "async", "res": jpanic(&m)}),
        Ok((None, _)) => json!({"front": "async", "res": {"k": "spin"}}),
        Ok((Some(Ok(q)), pos)) => json!({"front": "async", "res": {"k": "ok"}, "eq": q == *p, "pos": pos, "reenc": reenc(&q)}),
        Ok((Some(Err(e)), _)) => json!({"front": "async", "res": F::err_json(&e)}),
    });
    // poll, in reads of at most 3 MiB - 1 bytes
    let r = guarded(|| {
        let mut st: GenericPollPacketState<F::Header> = Default::default();
        let mut rd = ScriptedReader::new(arc.clone(), vec![], RStep::Data(3 * (1 << 20) - 1));
        rd.logging = false;
        let (o, _) = drive(GenericPollPacket::new(&mut st, &mut rd), crate::codec::MAX_POLLS);
        (o, rd.pos)
    });
    decs.push(match r {
        Err(m) => json!({"front": "poll", "res": jpanic(&m)}),
        Ok((None, _)) => json!({"front": "poll", "res": {"k": "spin"}}),
        Ok((Some(Ok((total, body, q))), pos)) => {
            let body_ok = body.len() <= b.len() && crate::codec::body_bytes(&body)[..] == b[b.len() - body.len()..];
            json!({"front": "poll", "res": {"k": "ok"}, "eq": q == *p, "pos": pos, "total": total, "body_len": body.len(),
                   "body_ok": body_ok, "reenc": reenc(&q)})
        }
        Ok((Some(Err(e)), _)) => json!({"front": "poll", "res": F::err_json(&e)}),
    });
    ev["dec"] = J::Array(decs);
    out.ev(ev);
}

/// the sizes: both sides of the 3/4-byte length boundary, of 2^24, and the largest packet there is
pub fn big_shapes(out: &mut Out, tier: &str, profile: &str) {
    // both sides of every power of two from 2^21 to 2^24 [2^27], and the largest packet there is
    let mut rls: Vec<usize> = vec![2097151, 2097152, 4194303, 4194304, 6291456, 8388607, 8388608, 16777215, 16777216];
    if profile == "release" {
        rls.push(268435455);
        if tier == "thorough" {
            rls.extend([33554431, 33554432, 67108863, 67108864, 134217727, 134217728, 268435454]);
        }
    }
    for rl in rls {
        let tl = 3usize;
        big_shape_event::<V3>(out, &publish_v3(tl, rl - 2 - tl, false), tl, rl - 2 - tl, profile);
        big_shape_event::<V5>(out, &publish_v5(tl, rl - 3 - tl), tl, rl - 3 - tl, profile);
    }
}

/// A refused encoding must leave nothing behind: try (and ignore) one packet past the 268,435,455 limit in both
/// families BEFORE the run's packets, on the same thread -- whatever state an encoder might keep between calls
/// (scratch buffers, caches) then shows in every later event of the run.
pub fn attempt_oversized() {
    let pl = 268435456 - 2 - 3;
    let _ = crate::io::guarded(|| {
        let _ = enc::<V3>(&publish_v3(3, pl, false));
        let _ = enc::<V5>(&publish_v5(3, pl));
    });
}

pub fn record_lens(out: &mut Out, tier: &str, seed: u64, profile: &str) {
    attempt_oversized();
    size_sweep(out);
    let n = if tier == "thorough" { 30000 } else { 1800 };
    let mut rng = Rng::new(seed ^ 0xC02);
    let mut b = budget(tier);
    for p in boundary_packets_v3("quick").into_iter().chain(max_field_packets_v3()) {
        lens_event::<V3>(out, &p, profile);
    }
    for p in boundary_packets_v5("quick").into_iter().chain(max_field_packets_v5()) {
        lens_event::<V5>(out, &p, profile);
    }
    for p in all_code_packets_v3() {
        lens_event::<V3>(out, &p, profile);
    }
    for p in all_code_packets_v5() {
        lens_event::<V5>(out, &p, profile);
    }
    for (p3, p5) in threshold_publishes() {
        lens_event::<V3>(out, &p3, profile);
        lens_event::<V5>(out, &p5, profile);
    }
    packets::<V3>(&mut rng, &mut b, n, |_r, p| lens_event::<V3>(out, p, profile));
    packets::<V5>(&mut rng, &mut b, n * 2, |_r, p| lens_event::<V5>(out, p, profile));
    // remaining-length width boundaries: body = 2 + topic_len + payload_len (QoS 0, v3) / + 1 (v5: empty properties)
    let mut bounds: Vec<usize> = vec![127, 128, 16383, 16384, 2097151, 2097152];
    if tier == "thorough" {
        bounds.push(268435455);
        bounds.push(268435456);
    }
    for body in bounds {
        for d in [-2i64, -1, 0, 1, 2] {
            let target = (body as i64 + d) as usize;
            if target > 268435455 + 2 {
                continue;
            }
            let tl = 3usize;
            if target >= 2 + tl {
                let pl = target - 2 - tl;
                let p = publish_v3(tl, pl, false);
                shape_event::<V3>(out, &p, json!({"t": "Publish", "qos": 0, "topic_len": tl, "payload_len": pl}), profile);
            }
            if target >= 3 + tl {
                let pl = target - 3 - tl;
                let p = publish_v5(tl, pl);
                shape_event::<V5>(out, &p, json!({"t": "Publish", "qos": 0, "topic_len": tl, "payload_len": pl, "props_len": 1}), profile);
            }
            if target >= 4 + tl && body <= 2097152 {
                let pl = target - 4 - tl;
                let p = publish_v3(tl, pl, true);
                shape_event::<V3>(out, &p, json!({"t": "Publish", "qos": 1, "topic_len": tl, "payload_len": pl}), profile);
            }
        }
    }
    // bodies of 2^32 bytes and more, described by ~65,540 clones of one Arc-backed 65,535-byte filter: only
    // encode_len() is called (the refusal must come before anything is allocated)
    {
        let f = mqtt_proto::TopicFilter::try_from("f".repeat(65535)).unwrap();
        for extra in [0usize, 6000] {
            let n = 65540 + extra;
            let p3 = v3::Packet::Subscribe(v3::Subscribe { pid: pid1(), topics: vec![(f.clone(), mqtt_proto::QoS::Level0); n] });
            let body: u64 = 2 + n as u64 * (3 + 65535);
            out.ev(json!({"ev": "LensHuge", "fam": "v3", "t": "Subscribe", "body_hi": body >> 28, "body_lo": body & 0xFFF_FFFF,
                          "encode_len": encode_len::<V3>(&p3)}));
            let p5 = v5::Packet::Unsubscribe(v5::Unsubscribe::new(pid1(), vec![f.clone(); n]));
            let body: u64 = 2 + 1 + n as u64 * (2 + 65535);
            out.ev(json!({"ev": "LensHuge", "fam": "v5", "t": "Unsubscribe", "body_hi": body >> 28, "body_lo": body & 0xFFF_FFFF,
                          "encode_len": encode_len::<V5>(&p5)}));
        }
    }
    if tier != "thorough" {
        // the refusal clause without allocating 256 MB twice: one packet just past the limit
        let pl = 268435456 - 2 - 3;
        let p = publish_v3(3, pl, false);
        shape_event::<V3>(out, &p, json!({"t": "Publish", "qos": 0, "topic_len": 3, "payload_len": pl}), profile);
    }
}

// ------------------------------------------------------------------------------------------------
// C09 / C10
fn sink_scripts(rng: &mut Rng, len: usize) -> Vec<(String, Vec<WStep>, WStep, bool)> {
    let mut v = vec![
        ("all".to_string(), vec![], WStep::Accept(usize::MAX), false),
        ("one-byte".to_string(), vec![], WStep::Accept(1), false),
        ("three-bytes".to_string(), vec![], WStep::Accept(3), false),
        // sinks that take vectored writes (a socket): everything; a first write shorter than any packet head; a first
        // write that stops in the middle of the packet; not-ready answers around a short write
        ("vectored-all".to_string(), vec![], WStep::Accept(usize::MAX), true),
        ("vectored-seven".to_string(), vec![WStep::Accept(7)], WStep::Accept(usize::MAX), true),
        ("vectored-half".to_string(), vec![WStep::Accept(len / 2 + 1)], WStep::Accept(usize::MAX), true),
        ("vectored-pending".to_string(), vec![WStep::Pending, WStep::Accept(len * 2 / 3 + 1), WStep::Pending, WStep::Accept(3)],
         WStep::Accept(5000), true),
        ("half".to_string(), vec![WStep::Accept(len / 2 + 1), WStep::Pending], WStep::Accept(4096), false),
    ];
    // one byte at a time with a Pending before every write
    if len <= 2000 {
        let mut s = Vec::new();
        for _ in 0..len + 1 {
            s.push(WStep::Pending);
            s.push(WStep::Accept(1));
        }
        v.push(("pending-one-byte".to_string(), s, WStep::Accept(1), false));
    }
    let mut s = Vec::new();
    for _ in 0..40 {
        if rng.chance(1, 3) {
            s.push(WStep::Pending);
        }
        s.push(WStep::Accept(rng.range(1, 9) as usize));
    }
    let vect = rng.bool();
    v.push(("random".to_string(), s, WStep::Accept(rng.range(1, 70) as usize), vect));
    v
}

/// which wire-numbered enum variants and which properties the run has pushed through the encoder
#[derive(Default)]
pub struct Coverage {
    pub codes: std::collections::BTreeSet<(String, String, String)>,
    pub props: std::collections::BTreeSet<(String, String)>,
}
impl Coverage {
    fn note_props(&mut self, set: &str, pr: &J) {
        if let Some(o) = pr.as_object() {
            for (k, v) in o {
                if v.as_array().map(|a| !a.is_empty()).unwrap_or(false) {
                    self.props.insert((set.to_string(), k.clone()));
                }
            }
        }
    }
    pub fn note(&mut self, fam: &str, p: &J) {
        let t = p["t"].as_str().unwrap_or("").to_string();
        if let Some(c) = p.get("code").and_then(|c| c.as_str()) {
            self.codes.insert((fam.to_string(), t.clone(), c.to_string()));
        }
        if let Some(cs) = p.get("codes").and_then(|c| c.as_array()) {
            for c in cs {
                self.codes.insert((fam.to_string(), t.clone(), c.as_str().unwrap_or("").to_string()));
            }
        }
        if let Some(pv) = p.get("protocol").and_then(|c| c.as_str()) {
            self.codes.insert((fam.to_string(), "Protocol".to_string(), pv.to_string()));
        }
        if let Some(ts) = p.get("topics").and_then(|c| c.as_array()) {
            for tp in ts {
                if let Some(rh) = tp.get("rh").and_then(|c| c.as_str()) {
                    self.codes.insert((fam.to_string(), "RetainHandling".to_string(), rh.to_string()));
                }
            }
        }
        if fam == "v5" {
            if let Some(pr) = p.get("props") {
                self.note_props(&t, pr);
            }
            if let Some(w) = p.get("will").and_then(|w| w.get(0)) {
                self.note_props("Will", &w["props"]);
            }
        }
    }
    pub fn event(&self) -> J {
        json!({"ev": "Coverage",
               "codes": self.codes.iter().map(|(a, b, c)| json!([a, b, c])).collect::<Vec<_>>(),
               "props": self.props.iter().map(|(a, b)| json!([a, b])).collect::<Vec<_>>()})
    }
}
thread_local! {
    pub static COVERAGE: std::cell::RefCell<Coverage> = std::cell::RefCell::new(Coverage::default());
}

fn enc_event<F: Fam>(out: &mut Out, rng: &mut Rng, p: &F::Packet) {
    let (e, bytes) = enc::<F>(p);
    COVERAGE.with(|c| c.borrow_mut().note(F::NAME, &F::to_json(p)));
    let mut ev = json!({"ev": "Enc", "fam": F::NAME, "packet": F::to_json(p), "sync": e});
    if let Some(b) = &bytes {
        // the container returned by the blocking encoder, a second invocation, and a clone of the packet
        // the container's own content, read by matching on its representation (not through as_ref)
        if let Ok(Ok(vb)) = guarded(|| F::encode(p)) {
            let raw: Vec<u8> = match &vb {
                mqtt_proto::VarBytes::Dynamic(v) => v.clone(),
                mqtt_proto::VarBytes::Fixed2(a) => a.to_vec(),
                mqtt_proto::VarBytes::Fixed4(a) => a.to_vec(),
            };
            ev["container"] = jbytes(&raw);
        }
        let again = enc::<F>(p).0;
        let cl = p.clone();
        let cloned = enc::<F>(&cl).0;
        ev["again"] = again;
        ev["cloned"] = cloned;
        let mut asyncs = Vec::new();
        for (name, script, dflt, vect) in sink_scripts(rng, b.len()) {
            let mut a = crate::codec::enc_async_on::<F>(p, script, dflt, None, vect, None);
            a["script"] = J::from(name);
            asyncs.push(a);
        }
        ev["async"] = J::Array(asyncs);
        ev["stream"] = enc_stream::<F>(p, usize::MAX, None);
        ev["stream1"] = enc_stream::<F>(p, 1, None);
    }
    out.ev(ev);
}

pub fn record_enc(out: &mut Out, tier: &str, seed: u64) {
    attempt_oversized();
    size_sweep(out);
    big_shapes(out, tier, if cfg!(debug_assertions) { "debug" } else { "release" });
    let n = if tier == "thorough" { 20000 } else { 900 };
    let mut rng = Rng::new(seed ^ 0xC09);
    let mut b = budget(tier);
    b.huge = b.huge.min(3);
    // every enum variant that is written as a wire number, in every packet type that carries it
    for p in boundary_packets_v3("quick").into_iter().chain(max_field_packets_v3().into_iter().take(4)) {
        enc_event::<V3>(out, &mut rng, &p);
    }
    for p in boundary_packets_v5("quick").into_iter().chain(max_field_packets_v5().into_iter().skip(4)) {
        enc_event::<V5>(out, &mut rng, &p);
    }
    for p in all_code_packets_v3() {
        enc_event::<V3>(out, &mut rng, &p);
    }
    for p in all_code_packets_v5() {
        enc_event::<V5>(out, &mut rng, &p);
    }
    // PUBLISH payload sizes around the powers of two where buffering fast paths switch, with every flag combination
    for (p3, p5) in threshold_publishes() {
        enc_event::<V3>(out, &mut rng, &p3);
        enc_event::<V5>(out, &mut rng, &p5);
    }
    fn interleave_event<F: Fam>(out: &mut Out, a: &F::Packet, b: &F::Packet) {
        let (ea, ba) = enc::<F>(a);
        let (eb, bb) = enc::<F>(b);
        if ba.map_or(0, |x| x.len()) > 3000 || bb.map_or(0, |x| x.len()) > 3000 {
            return;
        }
        let mut ev = json!({"ev": "Interleave", "fam": F::NAME, "pa": F::to_json(a), "pb": F::to_json(b), "sync_a": ea, "sync_b": eb});
        ev["run"] = enc_interleaved::<F>(a, b);
        out.ev(ev);
    }
    let types3 = V3::types();
    let mut prev3: Option<v3::Packet> = None;
    for i in 0..n {
        let p = V3::gen(&mut rng, &mut b, types3[i % types3.len()]);
        enc_event::<V3>(out, &mut rng, &p);
        if i % 4 == 0 {
            if let Some(q) = &prev3 {
                interleave_event::<V3>(out, q, &p);
                interleave_event::<V3>(out, &p, &p);
            }
        }
        prev3 = Some(p);
    }
    let types5 = V5::types();
    let mut prev5: Option<v5::Packet> = None;
    for i in 0..2 * n {
        let p = V5::gen(&mut rng, &mut b, types5[i % types5.len()]);
        enc_event::<V5>(out, &mut rng, &p);
        if i % 4 == 0 {
            if let Some(q) = &prev5 {
                interleave_event::<V5>(out, q, &p);
                interleave_event::<V5>(out, &p, &p);
            }
        }
        prev5 = Some(p);
    }
    let ev = COVERAGE.with(|c| c.borrow().event());
    out.ev(ev);
}

/// PUBLISH packets whose payload size sits around the powers of two where buffering fast paths switch (nobody's
/// protocol boundary), with every combination of DUP / RETAIN / QoS; the v5 ones also with a topic of 40 bytes and
/// properties, so that the packet head is longer than a short first write
pub fn threshold_publishes() -> Vec<(v3::Packet, v5::Packet)> {
    let mut v = Vec::new();
    for (k, n) in [255usize, 256, 1024, 4095, 4096, 4097, 8192, 16384, 65536].iter().enumerate() {
        for fl in 0..8u8 {
            if *n > 8192 && fl % 3 != k as u8 % 3 {
                continue;
            }
            let (dup, retain, q1) = (fl & 1 != 0, fl & 2 != 0, fl & 4 != 0);
            let qp = if q1 { QosPid::Level1(pid1()) } else { QosPid::Level0 };
            let topic = if fl % 2 == 0 { "t".to_string() } else { "sensors/building-7/floor-3/room-21/temp".to_string() };
            let mut p3 = v3::Publish::new(qp, TopicName::try_from(topic.clone()).unwrap(), Bytes::from(vec![0x5Au8; *n]));
            p3.dup = dup;
            p3.retain = retain;
            let mut p5 = v5::Publish::new(qp, TopicName::try_from(topic).unwrap(), Bytes::from(vec![0x5Au8; *n]));
            p5.dup = dup;
            p5.retain = retain;
            if fl >= 4 {
                p5.properties.content_type = Some(std::sync::Arc::new("application/octet-stream".to_string()));
                p5.properties.correlation_data = Some(Bytes::from(vec![0xC3u8; 16]));
                p5.properties.payload_is_utf8 = Some(true);
            }
            v.push((v3::Packet::Publish(p3), v5::Packet::Publish(p5)));
        }
    }
    v
}

fn pid1() -> mqtt_proto::Pid {
    mqtt_proto::Pid::try_from(0x1234).unwrap()
}

pub fn all_code_packets_v3() -> Vec<v3::Packet> {
    let mut v = Vec::new();
    for c in V3_CONNECT_RC {
        for sp in [false, true] {
            v.push(v3::Packet::Connack(v3::Connack { session_present: sp, code: *c }));
        }
    }
    v.push(v3::Packet::Suback(v3::Suback { pid: pid1(), topics: V3_SUB_RC.to_vec() }));
    for c in V3_SUB_RC {
        v.push(v3::Packet::Suback(v3::Suback { pid: pid1(), topics: vec![*c] }));
    }
    for pr in [mqtt_proto::Protocol::V310, mqtt_proto::Protocol::V311] {
        let mut c = v3::Connect::new(std::sync::Arc::new("id".to_string()), 60);
        c.protocol = pr;
        v.push(v3::Packet::Connect(c));
    }
    v
}

pub fn all_code_packets_v5() -> Vec<v5::Packet> {
    use v5::Packet as P;
    let mut v = Vec::new();
    for c in V5_CONNECT_RC {
        v.push(P::Connack(v5::Connack::new(false, *c)));
    }
    for c in V5_PUBACK_RC {
        v.push(P::Puback(v5::Puback::new(pid1(), *c)));
    }
    for c in V5_PUBREC_RC {
        v.push(P::Pubrec(v5::Pubrec::new(pid1(), *c)));
    }
    for c in V5_PUBREL_RC {
        v.push(P::Pubrel(v5::Pubrel::new(pid1(), *c)));
    }
    for c in V5_PUBCOMP_RC {
        v.push(P::Pubcomp(v5::Pubcomp::new(pid1(), *c)));
    }
    v.push(P::Suback(v5::Suback::new(pid1(), V5_SUB_RC.to_vec())));
    v.push(P::Unsuback(v5::Unsuback::new(pid1(), V5_UNSUB_RC.to_vec())));
    for c in V5_DISCONNECT_RC {
        v.push(P::Disconnect(v5::Disconnect::new(*c)));
        let mut d = v5::Disconnect::new(*c);
        d.properties.reason_string = Some(std::sync::Arc::new("r".to_string()));
        v.push(P::Disconnect(d));
    }
    for c in V5_AUTH_RC {
        v.push(P::Auth(v5::Auth::new(*c)));
    }
    for rh in V5_RH {
        for q in [mqtt_proto::QoS::Level0, mqtt_proto::QoS::Level1, mqtt_proto::QoS::Level2] {
            for nl in [false, true] {
                for rap in [false, true] {
                    v.push(P::Subscribe(v5::Subscribe::new(
                        pid1(),
                        vec![(
                            mqtt_proto::TopicFilter::try_from("a/+".to_string()).unwrap(),
                            v5::SubscriptionOptions { max_qos: q, no_local: nl, retain_as_published: rap, retain_handling: *rh },
                        )],
                    )));
                }
            }
        }
    }
    v
}

// ------------------------------------------------------------------------------------------------
// GEN direction: packets enumerated by TLC from the bounded domain of MC_Wire (one JSON vector per line:
// {"fam","packet","bytes"}) are built as real packet values and pushed through the real code
fn vector_events<F: Fam>(out: &mut Out, rng: &mut Rng, j: &J, mode: &str, profile: &str) {
    if mode == "poll" {
        // vectors of MC_Poll carry a stream only
        if let Ok(b) = as_bytes(&j["bytes"]) {
            let mut run = RUNS.with(|r| r.get());
            crate::frontends::model_stream_runs::<F>(out, rng, &mut run, &b);
            RUNS.with(|r| r.set(run));
        }
        return;
    }
    match F::from_json(&j["packet"]) {
        Err(m) => out.ev(json!({"ev": "Unconstructible", "fam": F::NAME, "packet": j["packet"].clone(), "why": m})),
        Ok(p) => match mode {
            "roundtrip" => roundtrip_event::<F>(out, &p),
            "lens" => lens_event::<F>(out, &p, profile),
            "enc" => enc_event::<F>(out, rng, &p),
            "cut" => crate::frontends::cut_events::<F>(out, rng, &p, true),
            // the SPECIFICATION's encoding of the packet as input of the acceptance-side drivers (inputs that do
            // not depend on the library's own encoder)
            "reenc" | "decoded" | "strict" => {
                if let Ok(b) = as_bytes(&j["bytes"]) {
                    crate::accept::spec_bytes_events::<F>(out, mode, &b);
                }
            }
            _ => {}
        },
    }
}

thread_local! {
    static RUNS: std::cell::Cell<u64> = const { std::cell::Cell::new(5_000_000) };
}

pub fn record_vectors(out: &mut Out, input: &str, mode: &str, seed: u64) {
    let profile = if cfg!(debug_assertions) { "debug" } else { "release" };
    let mut rng = Rng::new(seed ^ 0x6E6);
    let text = std::fs::read_to_string(input).expect("read vectors");
    for line in text.lines() {
        if line.trim().is_empty() {
            continue;
        }
        let j: J = serde_json::from_str(line).expect("vector json");
        match j["fam"].as_str() {
            Some("v3") => vector_events::<V3>(out, &mut rng, &j, mode, profile),
            Some("v5") => vector_events::<V5>(out, &mut rng, &j, mode, profile),
            _ => {}
        }
    }
}

// ------------------------------------------------------------------------------------------------
// every packet SIZE: a QoS-0 PUBLISH (topic "t") for every remaining length 4..=2300 and every 61st up to 70 000, through
// the blocking encoder, the async encoder against four sinks, and the three decoders.  Sizes that are nobody's protocol
// boundary (a 1 KiB stack buffer, a 4 KiB threshold) are covered because ALL sizes are.  Equality of bytes and packets is
// computed here (Packet: PartialEq) and reported as booleans; the specification checks sizes and the header.
fn size_sweep_for<F: GenFam>(out: &mut Out) {
    let overhead = if F::NAME == "v5" { 4 } else { 3 };
    let rls: Vec<usize> = (4usize..=2300).chain((2300..70000).step_by(61)).collect();
    for rl in rls {
        let payload: Vec<u8> = (0..rl - overhead).map(|i| (i % 253) as u8).collect();
        let mut j = json!({"t": "Publish", "dup": rl % 2 == 1, "retain": rl % 3 == 0, "qos": 0, "pid": [], "topic": [116],
            "payload": payload,
            "props": {"pfi": [], "mei": [], "ta": [], "rt": [], "cd": [], "sid": [], "ct": [], "user": []}});
        if F::NAME == "v3" {
            j.as_object_mut().unwrap().remove("props");
        }
        let Ok(p) = F::from_json(&j) else { continue };
        let (e, bytes) = enc::<F>(&p);
        let mut ev = json!({"ev": "SizeSweep", "fam": F::NAME, "rl": rl, "dup": rl % 2 == 1, "retain": rl % 3 == 0,
                            "encode_len": encode_len::<F>(&p)});
        match bytes {
            None => ev["enc"] = e,
            Some(b) => {
                ev["enc"] = json!({"k": "ok", "len": b.len(), "hdr": jbytes(&b[..b.len().min(5)])});
                let scripts: Vec<(Vec<WStep>, WStep, bool)> = vec![
                    (vec![], WStep::Accept(usize::MAX), false),
                    (vec![WStep::Accept(7), WStep::Pending], WStep::Accept(usize::MAX), true),
                    (vec![WStep::Accept(b.len() / 2 + 1)], WStep::Accept(usize::MAX), true),
                    (vec![WStep::Pending], WStep::Accept(509), false),
                ];
                let mut asyncs = Vec::new();
                for (sc, d, v) in scripts {
                    let a = enc_async_on::<F>(&p, sc, d, None, v, None);
                    asyncs.push(json!({"k": a["res"]["k"], "same": a["sink"] == jbytes(&b)}));
                }
                ev["async"] = J::Array(asyncs);
                let pj = F::to_json(&p);
                let mut decs = Vec::new();
                for (front, r) in [("block", dec_block::<F>(&b)), ("async", dec_async::<F>(&b, 1000)), ("poll", dec_poll::<F>(&b, usize::MAX))] {
                    decs.push(json!({"front": front, "ok": r["k"] == "ok" && r["v"] == pj,
                                     "total": r["total"].as_u64().unwrap_or(b.len() as u64)}));
                }
                ev["dec"] = J::Array(decs);
            }
        }
        out.ev(ev);
    }
}
pub fn size_sweep(out: &mut Out) {
    size_sweep_for::<V3>(out);
    size_sweep_for::<V5>(out);
}
