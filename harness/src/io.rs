//! Scripted transports: the environment of the codec's transition systems.
//!
//! `ScriptedReader` is the transport of the decoders (`AsyncRead`): each `poll_read` consumes one
//! scripted answer (`Data(k)`, `Pending`, `Eof`, `Err(kind)`); it logs what the decoder offered
//! (capacity, address) and what it was given.  `ScriptedWriter` / `ScriptedSink` are the sinks of
//! the encoders.  No threads, no clocks: a run is a deterministic function of the script.

use std::collections::VecDeque;
use std::future::Future;
use std::io;
use std::pin::Pin;
use std::sync::Arc;
use std::task::{Context, Poll, Wake, Waker};

use tokio::io::{AsyncRead, AsyncWrite, ReadBuf};

#[derive(Debug, Clone, Copy, PartialEq, Eq)]
pub enum RStep {
    /// deliver up to `k` bytes (bounded by the offered capacity and by what is left)
    Data(usize),
    Pending,
    Eof,
    Err(io::ErrorKind),
}

#[derive(Debug, Clone)]
pub struct ReadLog {
    pub cap: usize,
    pub addr: usize,
    /// "data" | "pending" | "eof" | "err"
    pub ans: &'static str,
    pub n: usize,
    pub kind: Option<io::ErrorKind>,
    /// stream position before the answer
    pub pos: usize,
}

pub struct ScriptedReader {
    pub data: Arc<Vec<u8>>,
    pub pos: usize,
    pub script: VecDeque<RStep>,
    /// answer once the script is exhausted
    pub default: RStep,
    pub log: Vec<ReadLog>,
    pub logging: bool,
    /// number of poll_read calls so far, readable while a future borrows the reader
    pub calls: Arc<std::sync::atomic::AtomicUsize>,
    /// a fault bound to a BYTE POSITION (not to a call count): once `pos` reaches `.0` every further call answers
    /// `.1`, preceded by `.2` not-ready answers; data steps never deliver past the position
    pub fault_at: Option<(usize, RStep, usize)>,
    /// the positional fault is answered ONCE; afterwards the transport goes on delivering (a decoder that swallows the
    /// fault and retries then completes, which the recorded result shows)
    pub fault_fired: bool,
    /// a decoder that never returns would hang the harness: beyond this many calls the transport panics (= data)
    pub max_calls: usize,
    /// how the transport fills the caller's buffer: `false` = `put_slice` (initialises exactly what it fills),
    /// `true` = `initialize_unfilled()` + copy + `advance(n)` (zeroes the WHOLE unfilled part, fills n bytes of it), as
    /// adapters over `std::io::Read` and in-place decrypting streams do.  Both are legal `AsyncRead` behaviour.
    pub init_style: bool,
}

pub const CALL_SLACK: usize = 200_000;

impl ScriptedReader {
    pub fn new(data: Arc<Vec<u8>>, script: Vec<RStep>, default: RStep) -> Self {
        ScriptedReader {
            data,
            pos: 0,
            script: script.into(),
            default,
            log: Vec::new(),
            logging: true,
            calls: Arc::new(std::sync::atomic::AtomicUsize::new(0)),
            fault_at: None,
            fault_fired: false,
            max_calls: 0,
            init_style: false,
        }
    }
    /// everything at once, then EOF
    pub fn all(data: Vec<u8>) -> Self {
        Self::new(Arc::new(data), vec![], RStep::Data(usize::MAX))
    }
}

impl AsyncRead for ScriptedReader {
    fn poll_read(
        self: Pin<&mut Self>,
        _cx: &mut Context<'_>,
        buf: &mut ReadBuf<'_>,
    ) -> Poll<io::Result<()>> {
        let me = self.get_mut();
        let ncalls = me.calls.fetch_add(1, std::sync::atomic::Ordering::Relaxed);
        if me.max_calls == 0 {
            me.max_calls = 4 * (me.data.len() + me.script.len()) + CALL_SLACK;
        }
        if ncalls > me.max_calls {
            panic!("spin: the transport was polled {} times for a stream of {} bytes", ncalls, me.data.len());
        }
        let mut step = me.script.pop_front().unwrap_or(me.default);
        let mut limit = usize::MAX;
        if let Some((at, f, pend)) = me.fault_at.as_mut() {
            if me.fault_fired {
                // after the fault the transport delivers again
            } else if me.pos >= *at {
                if *pend > 0 {
                    *pend -= 1;
                    step = RStep::Pending;
                } else {
                    step = *f;
                    me.fault_fired = true;
                }
            } else {
                limit = *at - me.pos;
            }
        }
        let cap = buf.remaining();
        // address of the first unfilled byte the decoder offers
        let addr = unsafe { buf.unfilled_mut().as_ptr() as usize };
        let pos = me.pos;
        let mut entry = ReadLog {
            cap,
            addr,
            ans: "data",
            n: 0,
            kind: None,
            pos,
        };
        let out = match step {
            RStep::Pending => {
                entry.ans = "pending";
                Poll::Pending
            }
            RStep::Eof => {
                entry.ans = "eof";
                Poll::Ready(Ok(()))
            }
            RStep::Err(k) => {
                entry.ans = "err";
                entry.kind = Some(k);
                Poll::Ready(Err(io::Error::new(k, "injected")))
            }
            RStep::Data(k) => {
                let left = me.data.len() - me.pos;
                let n = k.min(cap).min(left).min(limit);
                if n == 0 && cap > 0 {
                    entry.ans = "eof";
                } else {
                    if me.init_style {
                        let un = buf.initialize_unfilled();
                        un[..n].copy_from_slice(&me.data[me.pos..me.pos + n]);
                        buf.advance(n);
                    } else {
                        buf.put_slice(&me.data[me.pos..me.pos + n]);
                    }
                    me.pos += n;
                    entry.n = n;
                }
                Poll::Ready(Ok(()))
            }
        };
        if me.logging {
            me.log.push(entry);
        }
        out
    }
}

#[derive(Debug, Clone, Copy, PartialEq, Eq)]
pub enum WStep {
    Accept(usize),
    Pending,
    Zero,
    Err(io::ErrorKind),
}

#[derive(Debug, Clone)]
pub struct WriteLog {
    pub len: usize,
    pub ans: &'static str,
    pub n: usize,
    pub kind: Option<io::ErrorKind>,
}

pub struct ScriptedWriter {
    pub sink: Vec<u8>,
    pub script: VecDeque<WStep>,
    pub default: WStep,
    pub log: Vec<WriteLog>,
    /// fail (with `fail`) once `fail_at` bytes have been accepted -- ONCE; afterwards the sink accepts again (an
    /// encoder that swallows the fault and retries then completes, which the recorded sink shows)
    pub fail_at: Option<(usize, WStep)>,
    pub fail_fired: bool,
    pub ncalls: usize,
    /// the sink reports `is_write_vectored()` and takes bytes across the offered slices in order
    pub vectored: bool,
    /// a dead connection: once the injected write fault has been answered, `poll_flush` (and `poll_shutdown`) fail with
    /// this OTHER kind.  The write fault is what the encoder has to report.
    pub flush_kind_after_fault: Option<io::ErrorKind>,
    pub nflush: usize,
}

impl ScriptedWriter {
    pub fn new(script: Vec<WStep>, default: WStep) -> Self {
        ScriptedWriter {
            sink: Vec::new(),
            script: script.into(),
            default,
            log: Vec::new(),
            fail_at: None,
            fail_fired: false,
            ncalls: 0,
            vectored: false,
            flush_kind_after_fault: None,
            nflush: 0,
        }
    }
    fn answer(&mut self, len: usize) -> WStep {
        self.ncalls += 1;
        if self.ncalls > 4 * (self.sink.len() + len) + CALL_SLACK {
            panic!("spin: the sink was polled {} times", self.ncalls);
        }
        if let Some((at, f)) = self.fail_at {
            if self.fail_fired {
                return self.script.pop_front().unwrap_or(self.default);
            }
            if self.sink.len() >= at {
                self.fail_fired = true;
                return f;
            }
            let s = self.script.pop_front().unwrap_or(self.default);
            if let WStep::Accept(k) = s {
                return WStep::Accept(k.min(at - self.sink.len()).min(len));
            }
            return s;
        }
        self.script.pop_front().unwrap_or(self.default)
    }
}

impl AsyncWrite for ScriptedWriter {
    fn poll_write(
        self: Pin<&mut Self>,
        _cx: &mut Context<'_>,
        buf: &[u8],
    ) -> Poll<io::Result<usize>> {
        let me = self.get_mut();
        let step = me.answer(buf.len());
        let mut e = WriteLog {
            len: buf.len(),
            ans: "accept",
            n: 0,
            kind: None,
        };
        let out = match step {
            WStep::Pending => {
                e.ans = "pending";
                Poll::Pending
            }
            WStep::Zero => {
                e.ans = "zero";
                Poll::Ready(Ok(0))
            }
            WStep::Err(k) => {
                e.ans = "err";
                e.kind = Some(k);
                Poll::Ready(Err(io::Error::new(k, "injected")))
            }
            WStep::Accept(k) => {
                let n = k.max(1).min(buf.len());
                me.sink.extend_from_slice(&buf[..n]);
                e.n = n;
                Poll::Ready(Ok(n))
            }
        };
        me.log.push(e);
        out
    }
    fn poll_flush(self: Pin<&mut Self>, _cx: &mut Context<'_>) -> Poll<io::Result<()>> {
        let me = self.get_mut();
        me.nflush += 1;
        match me.flush_kind_after_fault {
            Some(k) if me.fail_fired => Poll::Ready(Err(io::Error::new(k, "flush on a dead connection"))),
            _ => Poll::Ready(Ok(())),
        }
    }
    fn poll_shutdown(self: Pin<&mut Self>, cx: &mut Context<'_>) -> Poll<io::Result<()>> {
        self.poll_flush(cx)
    }
    fn is_write_vectored(&self) -> bool {
        self.vectored
    }
    fn poll_write_vectored(
        self: Pin<&mut Self>,
        cx: &mut Context<'_>,
        bufs: &[io::IoSlice<'_>],
    ) -> Poll<io::Result<usize>> {
        if !self.vectored {
            // the default behaviour of the trait: the first non-empty slice
            let b = bufs.iter().find(|b| !b.is_empty()).map_or(&[][..], |b| &**b);
            return self.poll_write(cx, b);
        }
        let me = self.get_mut();
        let total: usize = bufs.iter().map(|b| b.len()).sum();
        let step = me.answer(total);
        let mut e = WriteLog { len: total, ans: "accept", n: 0, kind: None };
        let out = match step {
            WStep::Pending => {
                e.ans = "pending";
                Poll::Pending
            }
            WStep::Zero => {
                e.ans = "zero";
                Poll::Ready(Ok(0))
            }
            WStep::Err(k) => {
                e.ans = "err";
                e.kind = Some(k);
                Poll::Ready(Err(io::Error::new(k, "injected")))
            }
            WStep::Accept(k) => {
                let mut left = k.max(1).min(total);
                let n = left;
                for b in bufs {
                    let t = left.min(b.len());
                    me.sink.extend_from_slice(&b[..t]);
                    left -= t;
                    if left == 0 {
                        break;
                    }
                }
                e.n = n;
                Poll::Ready(Ok(n))
            }
        };
        me.log.push(e);
        out
    }
}

/// Blocking sink for the streaming `Encodable::encode`.
pub struct ScriptedSink {
    pub sink: Vec<u8>,
    /// bytes accepted per call at most
    pub chunk: usize,
    pub fail_at: Option<(usize, WStep)>,
    pub fail_fired: bool,
    pub calls: Vec<usize>,
}

impl ScriptedSink {
    pub fn new(chunk: usize, fail_at: Option<(usize, WStep)>) -> Self {
        ScriptedSink {
            sink: Vec::new(),
            chunk,
            fail_at,
            fail_fired: false,
            calls: Vec::new(),
        }
    }
}

impl io::Write for ScriptedSink {
    fn write(&mut self, buf: &[u8]) -> io::Result<usize> {
        self.calls.push(buf.len());
        if self.calls.len() > 4 * (self.sink.len() + buf.len()) + CALL_SLACK {
            panic!("spin: the sink was written {} times", self.calls.len());
        }
        let mut n = self.chunk.max(1).min(buf.len());
        if let Some((at, f)) = self.fail_at.filter(|_| !self.fail_fired) {
            if self.sink.len() >= at {
                self.fail_fired = true;
                return match f {
                    WStep::Zero => Ok(0),
                    WStep::Err(k) => Err(io::Error::new(k, "injected")),
                    _ => Ok(0),
                };
            }
            n = n.min(at - self.sink.len());
        }
        self.sink.extend_from_slice(&buf[..n]);
        Ok(n)
    }
    fn flush(&mut self) -> io::Result<()> {
        Ok(())
    }
}

/// Counts the bytes written, nothing else.
#[derive(Default)]
pub struct CountingSink {
    pub n: usize,
}
impl io::Write for CountingSink {
    fn write(&mut self, buf: &[u8]) -> io::Result<usize> {
        self.n += buf.len();
        Ok(buf.len())
    }
    fn flush(&mut self) -> io::Result<()> {
        Ok(())
    }
}

struct Noop;
impl Wake for Noop {
    fn wake(self: Arc<Self>) {}
}
pub fn noop_waker() -> Waker {
    Waker::from(Arc::new(Noop))
}

/// Poll a future to completion with a no-op waker; `None` if it is still pending after
/// `max_polls` polls (the scripted transports never block forever, so that is a spin).
pub fn drive<F: Future>(fut: F, max_polls: usize) -> (Option<F::Output>, usize) {
    let waker = noop_waker();
    let mut cx = Context::from_waker(&waker);
    let mut fut = std::pin::pin!(fut);
    let mut polls = 0;
    while polls < max_polls {
        polls += 1;
        if let Poll::Ready(v) = fut.as_mut().poll(&mut cx) {
            return (Some(v), polls);
        }
    }
    (None, polls)
}

pub fn kind_of(name: &str) -> io::ErrorKind {
    match name {
        "ConnectionReset" => io::ErrorKind::ConnectionReset,
        "BrokenPipe" => io::ErrorKind::BrokenPipe,
        "TimedOut" => io::ErrorKind::TimedOut,
        "ConnectionAborted" => io::ErrorKind::ConnectionAborted,
        "PermissionDenied" => io::ErrorKind::PermissionDenied,
        "WriteZero" => io::ErrorKind::WriteZero,
        "UnexpectedEof" => io::ErrorKind::UnexpectedEof,
        "InvalidData" => io::ErrorKind::InvalidData,
        "WouldBlock" => io::ErrorKind::WouldBlock,
        _ => io::ErrorKind::Other,
    }
}

pub const FAULT_KINDS: &[io::ErrorKind] = &[
    io::ErrorKind::ConnectionReset,
    io::ErrorKind::BrokenPipe,
    io::ErrorKind::TimedOut,
    io::ErrorKind::Other,
];

thread_local! {
    pub static IN_GUARD: std::cell::Cell<u32> = const { std::cell::Cell::new(0) };
}

/// start (seconds since the epoch) of the outermost call into the code under test that is running now, 0 = none
pub static OP_START: std::sync::atomic::AtomicU64 = std::sync::atomic::AtomicU64::new(0);
/// a single call into the code under test that does not return within this many seconds is a hang
pub const HANG_SECS: u64 = 600;
pub const HANG_EXIT: i32 = 97;

fn now_secs() -> u64 {
    std::time::SystemTime::now().duration_since(std::time::UNIX_EPOCH).map(|d| d.as_secs()).unwrap_or(1)
}

/// Watchdog: the code under test must terminate (C03); a call that never returns would otherwise hang the check.
pub fn start_watchdog() {
    std::thread::spawn(|| loop {
        std::thread::sleep(std::time::Duration::from_secs(2));
        let t = OP_START.load(std::sync::atomic::Ordering::Relaxed);
        if t != 0 && now_secs().saturating_sub(t) > HANG_SECS {
            eprintln!("harness hang: a call into the code under test did not return within {HANG_SECS}s");
            std::process::exit(HANG_EXIT);
        }
    });
}

/// Run `f`, turning a panic into data.
pub fn guarded<T>(f: impl FnOnce() -> T) -> Result<T, String> {
    let depth = IN_GUARD.with(|g| {
        g.set(g.get() + 1);
        g.get()
    });
    if depth == 1 {
        OP_START.store(now_secs(), std::sync::atomic::Ordering::Relaxed);
    }
    let r = std::panic::catch_unwind(std::panic::AssertUnwindSafe(f));
    IN_GUARD.with(|g| g.set(g.get() - 1));
    if depth == 1 {
        OP_START.store(0, std::sync::atomic::Ordering::Relaxed);
    }
    match r {
        Ok(v) => Ok(v),
        Err(e) => {
            let msg = if let Some(s) = e.downcast_ref::<&str>() {
                s.to_string()
            } else if let Some(s) = e.downcast_ref::<String>() {
                s.clone()
            } else {
                "panic".to_string()
            };
            Err(msg)
        }
    }
}
