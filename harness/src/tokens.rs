//! A labelled view of a VALID frame (as produced by the real encoder and validated against the
//! specification under C10): the frame is cut into segments by wire type only.  Malformations are
//! edits of segments; serialisation recomputes the enclosing property length and the remaining
//! length, so every edit yields a complete frame unless the edit itself is a length edit.

use crate::rng::Rng;
use crate::topic::varint;

#[derive(Debug, Clone, PartialEq)]
pub enum Kind {
    U8,
    U16,
    U32,
    VarInt,
    Flags,     // connect flags
    Code,      // return / reason code
    Opt,       // subscription options / requested QoS
    Pid,
    Level,     // protocol level
    Payload,   // raw bytes to the end
    PropId,
    BoolVal,
}

#[derive(Debug, Clone)]
pub enum Seg {
    Leaf { label: String, kind: Kind, bytes: Vec<u8> },
    /// length-prefixed field; text = must be UTF-8
    Field { label: String, text: bool, content: Vec<u8> },
    /// property block: var-int length + items (each item = PropId leaf followed by its value segments)
    Props { set: String, items: Vec<Vec<Seg>>, len_override: Option<Vec<u8>> },
}

#[derive(Debug, Clone)]
pub struct Frame {
    pub fam: &'static str,
    pub typ: String,
    pub ctl: u8,
    pub body: Vec<Seg>,
    pub rl_override: Option<Vec<u8>>,
}

fn ser(seg: &Seg, out: &mut Vec<u8>) {
    match seg {
        Seg::Leaf { bytes, .. } => out.extend_from_slice(bytes),
        Seg::Field { content, .. } => {
            out.push((content.len() >> 8) as u8);
            out.push((content.len() & 255) as u8);
            out.extend_from_slice(content);
        }
        Seg::Props { items, len_override, .. } => {
            let mut c = Vec::new();
            for it in items {
                for s in it {
                    ser(s, &mut c);
                }
            }
            match len_override {
                Some(l) => out.extend_from_slice(l),
                None => out.extend(varint(c.len())),
            }
            out.extend(c);
        }
    }
}

impl Frame {
    pub fn bytes(&self) -> Vec<u8> {
        let mut b = Vec::new();
        for s in &self.body {
            ser(s, &mut b);
        }
        let mut f = vec![self.ctl];
        match &self.rl_override {
            Some(l) => f.extend_from_slice(l),
            None => f.extend(varint(b.len())),
        }
        f.extend(b);
        f
    }
}

struct Cur<'a> {
    b: &'a [u8],
    p: usize,
}
impl<'a> Cur<'a> {
    fn take(&mut self, n: usize) -> Option<Vec<u8>> {
        if self.p + n > self.b.len() {
            return None;
        }
        let v = self.b[self.p..self.p + n].to_vec();
        self.p += n;
        Some(v)
    }
    fn leaf(&mut self, label: &str, kind: Kind, n: usize) -> Option<Seg> {
        Some(Seg::Leaf { label: label.to_string(), kind, bytes: self.take(n)? })
    }
    fn field(&mut self, label: &str, text: bool) -> Option<Seg> {
        let l = self.take(2)?;
        let n = ((l[0] as usize) << 8) | l[1] as usize;
        Some(Seg::Field { label: label.to_string(), text, content: self.take(n)? })
    }
    fn varint(&mut self) -> Option<(usize, Vec<u8>)> {
        let mut v = 0usize;
        let mut raw = Vec::new();
        for i in 0..4 {
            let b = *self.b.get(self.p)?;
            self.p += 1;
            raw.push(b);
            v |= ((b & 0x7F) as usize) << (7 * i);
            if b & 0x80 == 0 {
                return Some((v, raw));
            }
        }
        None
    }
    fn left(&self) -> usize {
        self.b.len() - self.p
    }
}

/// wire type of a property id (MQTT 5.0 table 2-4): b = byte, w = u16, d = u32, s = string, n = binary,
/// v = var-int, p = string pair, t = topic (string)
pub fn prop_wire(id: u8) -> Option<char> {
    Some(match id {
        0x01 | 0x17 | 0x19 | 0x24 | 0x25 | 0x28 | 0x29 | 0x2A => 'b',
        0x13 | 0x21 | 0x22 | 0x23 => 'w',
        0x02 | 0x11 | 0x18 | 0x27 => 'd',
        0x03 | 0x12 | 0x15 | 0x1A | 0x1C | 0x1F => 's',
        0x08 => 't',
        0x09 | 0x16 => 'n',
        0x0B => 'v',
        0x26 => 'p',
        _ => return None,
    })
}
pub const ALL_PROP_IDS: [u8; 27] = [
    0x01, 0x02, 0x03, 0x08, 0x09, 0x0B, 0x11, 0x12, 0x13, 0x15, 0x16, 0x17, 0x18, 0x19, 0x1A, 0x1C, 0x1F, 0x21, 0x22,
    0x23, 0x24, 0x25, 0x26, 0x27, 0x28, 0x29, 0x2A,
];
pub fn allowed_ids(set: &str) -> &'static [u8] {
    match set {
        "Connect" => &[0x11, 0x15, 0x16, 0x17, 0x19, 0x21, 0x22, 0x26, 0x27],
        "Will" => &[0x01, 0x02, 0x03, 0x08, 0x09, 0x18, 0x26],
        "Connack" => &[0x11, 0x12, 0x13, 0x15, 0x16, 0x1A, 0x1C, 0x1F, 0x21, 0x22, 0x24, 0x25, 0x26, 0x27, 0x28, 0x29, 0x2A],
        "Publish" => &[0x01, 0x02, 0x03, 0x08, 0x09, 0x0B, 0x23, 0x26],
        "Subscribe" => &[0x0B, 0x26],
        "Unsubscribe" => &[0x26],
        "Disconnect" => &[0x11, 0x1C, 0x1F, 0x26],
        "Auth" => &[0x15, 0x16, 0x1F, 0x26],
        _ => &[0x1F, 0x26],
    }
}
/// a minimal well-formed property with this id
pub fn sample_prop(id: u8) -> Vec<Seg> {
    let mut v = vec![Seg::Leaf { label: "prop.id".into(), kind: Kind::PropId, bytes: vec![id] }];
    match prop_wire(id) {
        Some('b') => v.push(Seg::Leaf { label: "prop.bool".into(), kind: Kind::BoolVal, bytes: vec![1] }),
        Some('w') => v.push(Seg::Leaf { label: "prop.u16".into(), kind: Kind::U16, bytes: vec![0, 9] }),
        Some('d') => v.push(Seg::Leaf { label: "prop.u32".into(), kind: Kind::U32, bytes: vec![0, 0, 0, 9] }),
        Some('s') => v.push(Seg::Field { label: "prop.str".into(), text: true, content: b"s".to_vec() }),
        Some('t') => v.push(Seg::Field { label: "prop.topic".into(), text: true, content: b"r/t".to_vec() }),
        Some('n') => v.push(Seg::Field { label: "prop.bin".into(), text: false, content: vec![1, 2] }),
        Some('v') => v.push(Seg::Leaf { label: "prop.varint".into(), kind: Kind::VarInt, bytes: vec![5] }),
        Some('p') => {
            v.push(Seg::Field { label: "prop.key".into(), text: true, content: b"k".to_vec() });
            v.push(Seg::Field { label: "prop.val".into(), text: true, content: b"v".to_vec() });
        }
        _ => {}
    }
    v
}

fn props(c: &mut Cur, set: &str) -> Option<Seg> {
    let (len, _raw) = c.varint()?;
    let end = c.p + len;
    if end > c.b.len() {
        return None;
    }
    let mut items = Vec::new();
    while c.p < end {
        let id = c.b[c.p];
        let mut it = vec![c.leaf("prop.id", Kind::PropId, 1)?];
        match prop_wire(id)? {
            'b' => it.push(c.leaf("prop.bool", Kind::BoolVal, 1)?),
            'w' => it.push(c.leaf("prop.u16", Kind::U16, 2)?),
            'd' => it.push(c.leaf("prop.u32", Kind::U32, 4)?),
            's' => it.push(c.field("prop.str", true)?),
            't' => it.push(c.field("prop.topic", true)?),
            'n' => it.push(c.field("prop.bin", false)?),
            'v' => {
                let (_v, raw) = c.varint()?;
                it.push(Seg::Leaf { label: "prop.varint".into(), kind: Kind::VarInt, bytes: raw });
            }
            'p' => {
                it.push(c.field("prop.key", true)?);
                it.push(c.field("prop.val", true)?);
            }
            _ => return None,
        }
        items.push(it);
    }
    if c.p != end {
        return None;
    }
    Some(Seg::Props { set: set.to_string(), items, len_override: None })
}

/// Cut a valid frame into labelled segments. Returns None if the frame does not have the canonical
/// layout this tokenizer expects (it is only ever applied to output of the real encoder).
pub fn tokenize(fam: &'static str, frame: &[u8]) -> Option<Frame> {
    let v5 = fam == "v5";
    let mut c = Cur { b: frame, p: 0 };
    let ctl = c.take(1)?[0];
    let (rl, _) = c.varint()?;
    if c.left() != rl {
        return None;
    }
    let t = ctl >> 4;
    let typ = match t {
        1 => "Connect", 2 => "Connack", 3 => "Publish", 4 => "Puback", 5 => "Pubrec", 6 => "Pubrel", 7 => "Pubcomp",
        8 => "Subscribe", 9 => "Suback", 10 => "Unsubscribe", 11 => "Unsuback", 12 => "Pingreq", 13 => "Pingresp",
        14 => "Disconnect", 15 => "Auth", _ => return None,
    };
    let mut body = Vec::new();
    match t {
        1 => {
            body.push(c.field("proto.name", false)?);
            body.push(c.leaf("proto.level", Kind::Level, 1)?);
            let flags = c.b[c.p];
            body.push(c.leaf("connect.flags", Kind::Flags, 1)?);
            body.push(c.leaf("keep_alive", Kind::U16, 2)?);
            if v5 {
                body.push(props(&mut c, "Connect")?);
            }
            body.push(c.field("client_id", true)?);
            if flags & 4 != 0 {
                if v5 {
                    body.push(props(&mut c, "Will")?);
                }
                body.push(c.field("will.topic", true)?);
                body.push(c.field("will.payload", false)?);
            }
            if flags & 0x80 != 0 {
                body.push(c.field("username", true)?);
            }
            if flags & 0x40 != 0 {
                body.push(c.field("password", false)?);
            }
        }
        2 => {
            body.push(c.leaf("connack.flags", Kind::U8, 1)?);
            body.push(c.leaf("code", Kind::Code, 1)?);
            if v5 {
                body.push(props(&mut c, "Connack")?);
            }
        }
        3 => {
            body.push(c.field("topic", true)?);
            if ctl & 6 != 0 {
                body.push(c.leaf("pid", Kind::Pid, 2)?);
            }
            if v5 {
                body.push(props(&mut c, "Publish")?);
            }
            let n = c.left();
            body.push(c.leaf("payload", Kind::Payload, n)?);
        }
        4..=7 => {
            body.push(c.leaf("pid", Kind::Pid, 2)?);
            if v5 && c.left() > 0 {
                body.push(c.leaf("code", Kind::Code, 1)?);
                if c.left() > 0 {
                    body.push(props(&mut c, typ)?);
                }
            }
        }
        8 | 10 => {
            body.push(c.leaf("pid", Kind::Pid, 2)?);
            if v5 {
                body.push(props(&mut c, typ)?);
            }
            while c.left() > 0 {
                body.push(c.field("filter", true)?);
                if t == 8 {
                    body.push(c.leaf("subopt", Kind::Opt, 1)?);
                }
            }
        }
        9 | 11 => {
            body.push(c.leaf("pid", Kind::Pid, 2)?);
            if v5 {
                body.push(props(&mut c, typ)?);
            }
            if !(t == 11 && !v5) {
                while c.left() > 0 {
                    body.push(c.leaf("code", Kind::Code, 1)?);
                }
            }
        }
        12 | 13 => {}
        14 | 15 => {
            if v5 && c.left() > 0 {
                body.push(c.leaf("code", Kind::Code, 1)?);
                if c.left() > 0 {
                    body.push(props(&mut c, typ)?);
                }
            }
        }
        _ => return None,
    }
    if c.left() != 0 {
        return None;
    }
    let f = Frame { fam, typ: typ.to_string(), ctl, body, rl_override: None };
    if f.bytes() != frame {
        return None;
    }
    Some(f)
}

/// one labelled malformation of a frame
pub struct Mal {
    pub m: &'static str,
    pub site: String,
    pub bytes: Vec<u8>,
}

const BAD_UTF8: [&[u8]; 5] = [&[0xC0, 0x80], &[0xED, 0xA0, 0x80], &[0xF4, 0x90, 0x80, 0x80], &[0xFF], &[0xE2, 0x82]];
const BAD_FILTERS: [&[u8]; 8] = [b"a/#/b", b"a+", b"#a", b"", b"$share/g", b"$share//a", b"$share/g+/a", b"+x"];

fn invalid_code_for(fam: &str, typ: &str) -> Vec<u8> {
    // bytes that are not in this packet type's table -- including codes that are valid for ANOTHER type
    match (fam, typ) {
        ("v3", "Connack") => vec![6, 0xFF, 0x80],
        ("v3", "Suback") => vec![3, 4, 0x81, 0xFF],
        (_, "Connack") => vec![0x01, 0x10, 0x8B, 0x91, 0xA2, 0xFF],
        (_, "Puback") | (_, "Pubrec") => vec![0x01, 0x92, 0x81, 0x11, 0xFF],
        (_, "Pubrel") | (_, "Pubcomp") => vec![0x10, 0x80, 0x91, 0x01],
        (_, "Suback") => vec![0x03, 0x10, 0x11, 0x92, 0x81],
        (_, "Unsuback") => vec![0x01, 0x10, 0x97, 0x92],
        (_, "Disconnect") => vec![0x01, 0x10, 0x84, 0x91, 0xA3],
        (_, "Auth") => vec![0x01, 0x10, 0x80, 0x1A],
        _ => vec![0xFF],
    }
}

/// every catalogue malformation applicable to this frame, at every site (DESIGN.md Appendix B)
pub fn catalogue(f: &Frame, rng: &mut Rng) -> Vec<Mal> {
    let mut out = Vec::new();
    let v5 = f.fam == "v5";
    let t = f.ctl >> 4;
    let push = |out: &mut Vec<Mal>, m: &'static str, site: String, fr: &Frame| {
        out.push(Mal { m, site, bytes: fr.bytes() });
    };
    // fixed header
    {
        let mut g = f.clone();
        g.ctl = f.ctl & 0x0F;
        push(&mut out, "hdr_type", "type nibble 0".into(), &g);
        if !v5 {
            let mut g = f.clone();
            g.ctl = 0xF0 | (f.ctl & 0x0F);
            push(&mut out, "hdr_type", "type nibble 15".into(), &g);
        }
        if t != 3 {
            for fl in [1u8, 2, 4, 8, 15, 0] {
                if fl != f.ctl & 0x0F {
                    let mut g = f.clone();
                    g.ctl = (f.ctl & 0xF0) | fl;
                    push(&mut out, "hdr_flags", format!("flags {fl}"), &g);
                }
            }
        } else {
            let mut g = f.clone();
            g.ctl = f.ctl | 0x06;
            push(&mut out, "pub_qos3", "qos bits 3".into(), &g);
        }
        let mut g = f.clone();
        let b = f.bytes();
        let rl = b.len() - 1 - varint(b.len()).len().min(4);
        let _ = rl;
        g.rl_override = Some(vec![0x80, 0x80, 0x80, 0x80, 0x01]);
        push(&mut out, "varint5", "remaining length".into(), &g);
    }
    // remaining length off by one (the frame handed to the strict decoder follows the declared length)
    {
        let b = f.bytes();
        let hdr = 1 + (b.len() - 1 - body_len(f)).max(1);
        let bl = body_len(f);
        if bl >= 1 {
            let mut s = vec![f.ctl];
            s.extend(varint(bl - 1));
            s.extend_from_slice(&b[hdr..b.len() - 1]);
            out.push(Mal { m: "rl_short", site: "remaining length - 1 (last byte cut)".into(), bytes: s });
        }
        let mut s = vec![f.ctl];
        s.extend(varint(bl + 1));
        s.extend_from_slice(&b[hdr..]);
        s.push(0);
        out.push(Mal { m: "rl_long", site: "remaining length + 1 (one trailing byte)".into(), bytes: s });
        // the header alone with remaining length 0, and with the body still behind it
        if bl >= 1 {
            out.push(Mal { m: "rl_zero", site: "remaining length 0, nothing follows".into(), bytes: vec![f.ctl, 0] });
            let mut s = vec![f.ctl, 0];
            s.extend_from_slice(&b[hdr..]);
            out.push(Mal { m: "rl_zero", site: "remaining length 0, body follows".into(), bytes: s });
        }
    }
    for i in 0..f.body.len() {
        match &f.body[i] {
            Seg::Leaf { label, kind, bytes } => match kind {
                Kind::Pid => {
                    let mut g = f.clone();
                    g.body[i] = Seg::Leaf { label: label.clone(), kind: kind.clone(), bytes: vec![0, 0] };
                    push(&mut out, "pid0", format!("{label}#{i}"), &g);
                }
                Kind::Code => {
                    for c in invalid_code_for(f.fam, &f.typ) {
                        let mut g = f.clone();
                        g.body[i] = Seg::Leaf { label: label.clone(), kind: kind.clone(), bytes: vec![c] };
                        push(&mut out, "code", format!("{label}#{i}={c}"), &g);
                    }
                }
                Kind::Opt => {
                    let vals: &[u8] = if v5 { &[0x40, 0x80, 0x03, 0x30, 0xFF] } else { &[3, 4, 0x80, 0xFF] };
                    for c in vals {
                        let mut g = f.clone();
                        g.body[i] = Seg::Leaf { label: label.clone(), kind: kind.clone(), bytes: vec![bytes[0] & 0x0C | *c] };
                        let name = if v5 { "subopt" } else { "sub_qos" };
                        push(&mut out, name, format!("{label}#{i}={c}"), &g);
                    }
                }
                Kind::Flags => {
                    let fl = bytes[0];
                    let mut g = f.clone();
                    g.body[i] = Seg::Leaf { label: label.clone(), kind: kind.clone(), bytes: vec![fl | 1] };
                    push(&mut out, "conn_reserved", "connect flags bit 0".into(), &g);
                    if fl & 4 != 0 {
                        let mut g = f.clone();
                        g.body[i] = Seg::Leaf { label: label.clone(), kind: kind.clone(), bytes: vec![fl | 0x18] };
                        push(&mut out, "will_qos3", "will qos 3".into(), &g);
                    } else {
                        for q in [0x08u8, 0x10, 0x18] {
                            let mut g = f.clone();
                            g.body[i] = Seg::Leaf { label: label.clone(), kind: kind.clone(), bytes: vec![fl | q] };
                            push(&mut out, "conn_willqos_nowill", format!("will qos bits {q} without will"), &g);
                        }
                    }
                }
                Kind::U8 if label == "connack.flags" => {
                    for c in [2u8, 0x80, 0xFF] {
                        let mut g = f.clone();
                        g.body[i] = Seg::Leaf { label: label.clone(), kind: kind.clone(), bytes: vec![c] };
                        push(&mut out, "connack_flags", format!("={c}"), &g);
                    }
                }
                Kind::Level => {
                    for c in [0u8, 1, 2, 6, 0x83, 0x84, 0xFF] {
                        let mut g = f.clone();
                        g.body[i] = Seg::Leaf { label: label.clone(), kind: kind.clone(), bytes: vec![c] };
                        push(&mut out, "proto_level", format!("level {c}"), &g);
                    }
                    for c in [3u8, 4, 5] {
                        if c != bytes[0] {
                            let mut g = f.clone();
                            g.body[i] = Seg::Leaf { label: label.clone(), kind: kind.clone(), bytes: vec![c] };
                            push(&mut out, "proto_level", format!("level {c}"), &g);
                        }
                    }
                }
                _ => {}
            },
            Seg::Field { label, text, content } => {
                if label == "proto.name" {
                    for nm in [&b"MQTt"[..], b"MQIsdp", b"MQTT", b"", b"MQTTT", &[0x4D, 0xFF],
                               "xxxxxxxxx😀😀".as_bytes(), "ééééééééééééééééé".as_bytes(), "MQTT\u{0}".as_bytes(),
                               &[b'a'; 300][..]] {
                        if nm != &content[..] {
                            let mut g = f.clone();
                            g.body[i] = Seg::Field { label: label.clone(), text: *text, content: nm.to_vec() };
                            push(&mut out, "proto_name", format!("name {:?}", String::from_utf8_lossy(nm)), &g);
                        }
                    }
                }
                if *text {
                    for bad in BAD_UTF8 {
                        let mut g = f.clone();
                        let mut c2 = content.clone();
                        let at = if c2.is_empty() { 0 } else { rng.below(c2.len() as u64 + 1) as usize };
                        // keep the text around the bad sequence on character boundaries
                        let at = (0..=at).rev().find(|k| std::str::from_utf8(&content[..*k]).is_ok()).unwrap_or(0);
                        c2.splice(at..at, bad.iter().cloned());
                        g.body[i] = Seg::Field { label: label.clone(), text: true, content: c2 };
                        push(&mut out, "bad_utf8", format!("{label}#{i}"), &g);
                    }
                }
                if label == "topic" || label == "will.topic" || label == "filter" {
                    // TWO faults in one field: a forbidden character AND ill-formed UTF-8 (the text is not UTF-8: that is
                    // what has to be reported, and no String may be built from it)
                    for w in [&[b'a', b'+', 0xC0][..], &[b'#', 0xFF], &[b'a', 0, 0xC3], &[0xE2, 0x82, b'+', b'/', b'x'], &[b'+', b'x', 0xF0, 0x9F]] {
                        let mut g = f.clone();
                        g.body[i] = Seg::Field { label: label.clone(), text: true, content: w.to_vec() };
                        push(&mut out, "bad_utf8", format!("{label}#{i} and a forbidden character"), &g);
                    }
                }
                if label == "topic" || label == "will.topic" || label == "filter" {
                    // a LONG rejected text made of multi-byte characters at every byte alignment (whatever is done with
                    // the rejected text - copied, clipped, logged - is done at an offset inside a character)
                    for ch in ["é", "€", "😀"] {
                        for pad in 0..ch.len() {
                            let bad = if label == "filter" { "/#/x" } else { "/+" };
                            let t = format!("{}{}{}", "a".repeat(pad), ch.repeat(1300 / ch.len()), bad);
                            let mut g = f.clone();
                            g.body[i] = Seg::Field { label: label.clone(), text: true, content: t.into_bytes() };
                            push(&mut out, if label == "filter" { "bad_filter" } else { "wild_name" },
                                 format!("{label}#{i} long multi-byte text"), &g);
                        }
                    }
                }
                if label == "topic" || label == "will.topic" {
                    for w in [&b"a/+"[..], b"#", b"a\0b", b"+"] {
                        let mut g = f.clone();
                        g.body[i] = Seg::Field { label: label.clone(), text: true, content: w.to_vec() };
                        push(&mut out, "wild_name", format!("{label}#{i}"), &g);
                    }
                }
                if label == "filter" {
                    for w in BAD_FILTERS {
                        let mut g = f.clone();
                        g.body[i] = Seg::Field { label: label.clone(), text: true, content: w.to_vec() };
                        push(&mut out, "bad_filter", format!("{label}#{i}={:?}", String::from_utf8_lossy(w)), &g);
                    }
                }
            }
            Seg::Props { set, items, .. } => {
                // unknown identifier in place of each property's id, and as an extra property
                for id in [0u8, 4, 0x7F, 0xFF] {
                    let mut g = f.clone();
                    if let Seg::Props { items: it, .. } = &mut g.body[i] {
                        it.push(vec![Seg::Leaf { label: "prop.id".into(), kind: Kind::PropId, bytes: vec![id] },
                                     Seg::Leaf { label: "prop.bool".into(), kind: Kind::BoolVal, bytes: vec![0] }]);
                    }
                    push(&mut out, "prop_unknown", format!("{set}: id {id}"), &g);
                }
                // every property not permitted here
                for id in ALL_PROP_IDS {
                    if !allowed_ids(set).contains(&id) {
                        let mut g = f.clone();
                        if let Seg::Props { items: it, .. } = &mut g.body[i] {
                            let at = rng.below(it.len() as u64 + 1) as usize;
                            it.insert(at, sample_prop(id));
                        }
                        push(&mut out, "prop_foreign", format!("{set}: id {id}"), &g);
                    }
                }
                // every present non-user property twice; every absent one inserted twice
                for id in allowed_ids(set) {
                    if *id == 0x26 {
                        continue;
                    }
                    let mut g = f.clone();
                    if let Seg::Props { items: it, .. } = &mut g.body[i] {
                        let present = it.iter().position(|x| matches!(&x[0], Seg::Leaf { bytes, .. } if bytes[0] == *id));
                        match present {
                            Some(k) => {
                                let dup = it[k].clone();
                                it.push(dup);
                            }
                            None => {
                                it.push(sample_prop(*id));
                                it.push(sample_prop(*id));
                            }
                        }
                    }
                    push(&mut out, "prop_dup", format!("{set}: id {id}"), &g);
                }
                // a multi-byte character split across the two strings of a user property: each half is invalid
                // UTF-8 although their concatenation is valid
                for (k, it) in items.iter().enumerate() {
                    if it.len() == 3 {
                        if let (Seg::Field { label: l1, content: c1, .. }, Seg::Field { label: l2, content: c2, .. }) = (&it[1], &it[2]) {
                            for (head, tail) in [(&[0xE4u8, 0xBD][..], &[0xA0u8][..]), (&[0xC3][..], &[0xA9][..]), (&[0xF0, 0x9F][..], &[0x98, 0x80][..])] {
                                let mut g = f.clone();
                                let mut a = c1.clone();
                                a.extend_from_slice(head);
                                let mut b = tail.to_vec();
                                b.extend_from_slice(c2);
                                if let Seg::Props { items: it2, .. } = &mut g.body[i] {
                                    it2[k][1] = Seg::Field { label: l1.clone(), text: true, content: a };
                                    it2[k][2] = Seg::Field { label: l2.clone(), text: true, content: b };
                                }
                                push(&mut out, "bad_utf8", format!("{set}: user property {k}, character split across name and value"), &g);
                            }
                        }
                    }
                }
                for (k, it) in items.iter().enumerate() {
                    for (j, s) in it.iter().enumerate() {
                        match s {
                            Seg::Leaf { kind: Kind::BoolVal, label, .. } => {
                                for c in [2u8, 0xFF] {
                                    let mut g = f.clone();
                                    if let Seg::Props { items: it2, .. } = &mut g.body[i] {
                                        it2[k][j] = Seg::Leaf { label: label.clone(), kind: Kind::BoolVal, bytes: vec![c] };
                                    }
                                    push(&mut out, "prop_bool", format!("{set}: item {k} = {c}"), &g);
                                }
                            }
                            Seg::Leaf { kind: Kind::VarInt, label, .. } => {
                                let mut g = f.clone();
                                if let Seg::Props { items: it2, .. } = &mut g.body[i] {
                                    it2[k][j] = Seg::Leaf { label: label.clone(), kind: Kind::VarInt, bytes: vec![0x80, 0x80, 0x80, 0x80, 0x01] };
                                }
                                push(&mut out, "varint5", format!("{set}: subscription identifier"), &g);
                            }
                            Seg::Field { text: true, label, content } => {
                                let bad = BAD_UTF8[(k + j) % BAD_UTF8.len()];
                                let mut g = f.clone();
                                let mut c2 = content.clone();
                                c2.extend_from_slice(bad);
                                if let Seg::Props { items: it2, .. } = &mut g.body[i] {
                                    it2[k][j] = Seg::Field { label: label.clone(), text: true, content: c2 };
                                }
                                push(&mut out, "bad_utf8", format!("{set}: item {k} {label}"), &g);
                                if label == "prop.topic" {
                                    for w in [&b"a/+"[..], b"#", b"a\0"] {
                                        let mut g = f.clone();
                                        if let Seg::Props { items: it2, .. } = &mut g.body[i] {
                                            it2[k][j] = Seg::Field { label: label.clone(), text: true, content: w.to_vec() };
                                        }
                                        push(&mut out, "wild_resp", format!("{set}: response topic"), &g);
                                    }
                                }
                            }
                            _ => {}
                        }
                    }
                }
                // declared property length one less than actual
                let mut c = Vec::new();
                ser(&f.body[i], &mut c);
                let clen = {
                    let mut inner = Vec::new();
                    for it in items {
                        for s in it {
                            ser(s, &mut inner);
                        }
                    }
                    inner.len()
                };
                if clen >= 2 {
                    let mut g = f.clone();
                    if let Seg::Props { len_override, .. } = &mut g.body[i] {
                        *len_override = Some(varint(clen - 1));
                    }
                    push(&mut out, "prop_len-1", format!("{set}"), &g);
                }
                let mut g = f.clone();
                if let Seg::Props { len_override, .. } = &mut g.body[i] {
                    *len_override = Some(vec![0x80, 0x80, 0x80, 0x80, 0x01]);
                }
                push(&mut out, "varint5", format!("{set}: property length"), &g);
            }
        }
    }
    // v5: payload flagged as UTF-8 (Payload Format Indicator = 1) that is not UTF-8: PUBLISH and will
    if v5 {
        for i in 0..f.body.len() {
            let set = match &f.body[i] {
                Seg::Props { set, .. } if set == "Publish" || set == "Will" => set.clone(),
                _ => continue,
            };
            // the payload segment that belongs to this property block
            let pay = (i + 1..f.body.len()).find(|k| match &f.body[*k] {
                Seg::Leaf { kind: Kind::Payload, .. } => set == "Publish",
                Seg::Field { label, .. } => set == "Will" && label == "will.payload",
                _ => false,
            });
            let Some(pi) = pay else { continue };
            for bad in [&[0x80u8][..], &[0x61, 0x80, 0x62], &[0xC0, 0x80], &[0xFF, 0xFC], &[0xED, 0xA0, 0x80], &[0xE2, 0x82]] {
                let mut g = f.clone();
                if let Seg::Props { items, .. } = &mut g.body[i] {
                    items.retain(|it| !matches!(&it[0], Seg::Leaf { bytes, .. } if bytes[0] == 0x01));
                    items.insert(0, vec![Seg::Leaf { label: "prop.id".into(), kind: Kind::PropId, bytes: vec![1] },
                                         Seg::Leaf { label: "prop.bool".into(), kind: Kind::BoolVal, bytes: vec![1] }]);
                }
                g.body[pi] = match &f.body[pi] {
                    Seg::Leaf { label, kind, .. } => Seg::Leaf { label: label.clone(), kind: kind.clone(), bytes: bad.to_vec() },
                    Seg::Field { label, text, .. } => Seg::Field { label: label.clone(), text: *text, content: bad.to_vec() },
                    other => other.clone(),
                };
                push(&mut out, "payload_fmt", format!("{set} payload"), &g);
            }
        }
    }
    // SUBSCRIBE / UNSUBSCRIBE without topics
    if t == 8 || t == 10 {
        let mut g = f.clone();
        g.body.retain(|s| !matches!(s, Seg::Field { label, .. } if label == "filter") && !matches!(s, Seg::Leaf { kind: Kind::Opt, .. }));
        push(&mut out, "empty_subs", "no topics".into(), &g);
    }
    out
}

pub fn body_len(f: &Frame) -> usize {
    let mut b = Vec::new();
    for s in &f.body {
        ser(s, &mut b);
    }
    b.len()
}

/// legal non-canonical spellings of the same packet (C11 / C04): short forms spelled out
pub fn spellings(f: &Frame) -> Vec<(String, Vec<u8>)> {
    let mut out = Vec::new();
    let t = f.ctl >> 4;
    // pinned leniencies that the library's own encoder may never produce: DUP = 1 with QoS 0 (L5),
    // Will-Retain without Will-Flag (L1)
    if t == 3 && f.ctl & 0x06 == 0 {
        let mut g = f.clone();
        g.ctl |= 0x08;
        out.push(("DUP with QoS 0".to_string(), g.bytes()));
    }
    if t == 1 {
        for i in 0..f.body.len() {
            if let Seg::Leaf { label, kind: Kind::Flags, bytes } = &f.body[i] {
                if bytes[0] & 0x04 == 0 {
                    let mut g = f.clone();
                    g.body[i] = Seg::Leaf { label: label.clone(), kind: Kind::Flags, bytes: vec![bytes[0] | 0x20] };
                    out.push(("Will-Retain without Will-Flag".to_string(), g.bytes()));
                }
            }
        }
    }
    if f.fam != "v5" {
        return out;
    }
    let leaf = |label: &str, kind: Kind, b: Vec<u8>| Seg::Leaf { label: label.into(), kind, bytes: b };
    let empty_props = |set: &str| Seg::Props { set: set.into(), items: vec![], len_override: None };
    if (4..=7).contains(&t) && f.body.len() == 1 {
        let mut g = f.clone();
        g.body.push(leaf("code", Kind::Code, vec![0]));
        out.push(("explicit Success code".to_string(), g.bytes()));
        g.body.push(empty_props(&f.typ));
        out.push(("explicit Success code and empty property length".to_string(), g.bytes()));
    }
    if (4..=7).contains(&t) && f.body.len() == 2 {
        let mut g = f.clone();
        g.body.push(empty_props(&f.typ));
        out.push(("explicit empty property length".to_string(), g.bytes()));
    }
    if (t == 14 || t == 15) && f.body.is_empty() {
        let mut g = f.clone();
        g.body.push(leaf("code", Kind::Code, vec![0]));
        if t == 14 {
            out.push(("explicit Normal code".to_string(), g.bytes()));
        }
        g.body.push(empty_props(&f.typ));
        out.push(("explicit code and empty property length".to_string(), g.bytes()));
    }
    if t == 14 && f.body.len() == 1 {
        let mut g = f.clone();
        g.body.push(empty_props(&f.typ));
        out.push(("explicit empty property length".to_string(), g.bytes()));
    }
    // another property order (any order is legal; only the relative order of user properties carries meaning):
    // user properties first, in their order, then the others reversed
    for i in 0..f.body.len() {
        if let Seg::Props { items, .. } = &f.body[i] {
            if items.len() >= 2 {
                let mut g = f.clone();
                if let Seg::Props { items: it, .. } = &mut g.body[i] {
                    let is_user = |x: &Vec<Seg>| matches!(&x[0], Seg::Leaf { bytes, .. } if bytes[0] == 0x26);
                    let mut users: Vec<Vec<Seg>> = it.iter().filter(|x| is_user(x)).cloned().collect();
                    let mut others: Vec<Vec<Seg>> = it.iter().filter(|x| !is_user(x)).cloned().collect();
                    others.reverse();
                    users.extend(others);
                    *it = users;
                }
                if g.bytes() != f.bytes() {
                    out.push(("properties in another order".to_string(), g.bytes()));
                }
            }
        }
    }
    out
}

/// non-minimal PROPERTY length (a leniency of the decoders; outside C04 / C20): the same frame with each top-level
/// property length padded by one continuation byte, one frame per property section
pub fn nonminimal_proplen(f: &Frame) -> Vec<Vec<u8>> {
    let mut out = Vec::new();
    for i in 0..f.body.len() {
        if let Seg::Props { items, .. } = &f.body[i] {
            let mut inner = Vec::new();
            for it in items {
                for s in it {
                    ser(s, &mut inner);
                }
            }
            let mut l = varint(inner.len());
            if l.len() < 4 {
                let last = l.len() - 1;
                l[last] |= 0x80;
                l.push(0);
                let mut g = f.clone();
                if let Seg::Props { len_override, .. } = &mut g.body[i] {
                    *len_override = Some(l);
                }
                out.push(g.bytes());
            }
        }
    }
    out
}

/// non-minimal remaining length (outside C04 / C20, inside C11): the same frame with a padded length field
pub fn nonminimal_rl(f: &Frame) -> Vec<u8> {
    let n = body_len(f);
    let mut g = f.clone();
    let mut l = varint(n);
    if l.len() < 4 {
        let last = l.len() - 1;
        l[last] |= 0x80;
        l.push(0);
    }
    g.rl_override = Some(l);
    g.bytes()
}
