//! Beyond the listed properties: constructor defaults, type tags, conversions, Display (Api.tla).

use std::convert::TryFrom;
use std::sync::Arc;

use bytes::Bytes;
use mqtt_proto::{v3, v5, Encodable, Pid, Protocol, QoS, QosPid, TopicFilter, TopicName};
use serde_json::{json, Value as J};

use crate::fam::{Fam, V3, V5};
use crate::gen::{Budget, GenFam};
use crate::model::*;
use crate::out::Out;
use crate::rng::Rng;

fn ctor(out: &mut Out, fam: &str, name: &str, args: J, packet: J) {
    out.ev(json!({"ev": "Ctor", "fam": fam, "name": name, "args": args, "packet": packet}));
}

pub fn record_api(out: &mut Out, seed: u64) {
    let mut rng = Rng::new(seed ^ 0xA91);
    let pid = Pid::try_from(77).unwrap();
    let tn = || TopicName::try_from("a/b".to_string()).unwrap();
    let tf = || TopicFilter::try_from("a/+".to_string()).unwrap();
    // constructors
    let c3 = v3::Connect::new(Arc::new("id".to_string()), 60);
    ctor(out, "v3", "Connect::new", json!({"id": jtext("id"), "ka": 60}), v3_to_json(&v3::Packet::Connect(c3)));
    let c5 = v5::Connect::new(Arc::new("id".to_string()), 61);
    ctor(out, "v5", "Connect::new", json!({"id": jtext("id"), "ka": 61}), v5_to_json(&v5::Packet::Connect(c5)));
    for q in [QoS::Level0, QoS::Level1, QoS::Level2] {
        let w3 = v3::LastWill::new(q, tn(), Bytes::from_static(b"m"));
        let mut c = v3::Connect::new(Arc::new("x".to_string()), 1);
        c.last_will = Some(w3);
        let j = v3_to_json(&v3::Packet::Connect(c));
        ctor(out, "v3", "LastWill::new", json!({"qos": qos_num(q), "topic": jtext("a/b"), "msg": jbytes(b"m")}), j["will"][0].clone());
        let w5 = v5::LastWill::new(q, tn(), Bytes::from_static(b"m"));
        ctor(out, "v5", "LastWill::new", json!({"qos": qos_num(q), "topic": jtext("a/b"), "msg": jbytes(b"m")}), v5_will_to(&w5));
        let o = v5::SubscriptionOptions::new(q);
        let s = v5::Subscribe::new(pid, vec![(tf(), o)]);
        let j = v5_to_json(&v5::Packet::Subscribe(s));
        let mut t = j["topics"][0].clone();
        t.as_object_mut().unwrap().remove("filter");
        ctor(out, "v5", "SubscriptionOptions::new", json!({"qos": qos_num(q)}), t);
        ctor(out, "v5", "Listed::new", json!({"pid": 77}), j);
    }
    for qp in [QosPid::Level0, QosPid::Level1(pid), QosPid::Level2(pid)] {
        let (q, p) = match qp {
            QosPid::Level0 => (0, json!([])),
            QosPid::Level1(p) => (1, json!([p.value()])),
            QosPid::Level2(p) => (2, json!([p.value()])),
        };
        let args = json!({"qos": q, "pid": p, "topic": jtext("a/b"), "payload": jbytes(b"pl")});
        ctor(out, "v3", "Publish::new", args.clone(), v3_to_json(&v3::Packet::Publish(v3::Publish::new(qp, tn(), Bytes::from_static(b"pl")))));
        ctor(out, "v5", "Publish::new", args, v5_to_json(&v5::Packet::Publish(v5::Publish::new(qp, tn(), Bytes::from_static(b"pl")))));
        out.ev(json!({"ev": "QosPid", "qos": q, "pid": p, "qos_out": qos_num(qp.qos()),
                      "pid_out": match qp.pid() { None => json!([]), Some(p) => json!([p.value()]) }}));
    }
    for c in V3_CONNECT_RC {
        for sp in [false, true] {
            ctor(out, "v3", "Connack::new", json!({"sp": sp, "code": format!("{c:?}")}), v3_to_json(&v3::Packet::Connack(v3::Connack::new(sp, *c))));
        }
    }
    for c in V5_CONNECT_RC {
        ctor(out, "v5", "Connack::new", json!({"sp": true, "code": format!("{c:?}")}), v5_to_json(&v5::Packet::Connack(v5::Connack::new(true, *c))));
    }
    for c in V5_PUBACK_RC {
        ctor(out, "v5", "Ack::new", json!({"typ": "Puback", "pid": 77, "code": format!("{c:?}")}), v5_to_json(&v5::Packet::Puback(v5::Puback::new(pid, *c))));
    }
    for c in V5_PUBREC_RC {
        ctor(out, "v5", "Ack::new", json!({"typ": "Pubrec", "pid": 77, "code": format!("{c:?}")}), v5_to_json(&v5::Packet::Pubrec(v5::Pubrec::new(pid, *c))));
    }
    for c in V5_PUBREL_RC {
        ctor(out, "v5", "Ack::new", json!({"typ": "Pubrel", "pid": 77, "code": format!("{c:?}")}), v5_to_json(&v5::Packet::Pubrel(v5::Pubrel::new(pid, *c))));
    }
    for c in V5_PUBCOMP_RC {
        ctor(out, "v5", "Ack::new", json!({"typ": "Pubcomp", "pid": 77, "code": format!("{c:?}")}), v5_to_json(&v5::Packet::Pubcomp(v5::Pubcomp::new(pid, *c))));
    }
    ctor(out, "v5", "Ack::new_success", json!({"typ": "Puback", "pid": 77}), v5_to_json(&v5::Packet::Puback(v5::Puback::new_success(pid))));
    ctor(out, "v5", "Ack::new_success", json!({"typ": "Pubrec", "pid": 77}), v5_to_json(&v5::Packet::Pubrec(v5::Pubrec::new_success(pid))));
    ctor(out, "v5", "Ack::new_success", json!({"typ": "Pubrel", "pid": 77}), v5_to_json(&v5::Packet::Pubrel(v5::Pubrel::new_success(pid))));
    ctor(out, "v5", "Ack::new_success", json!({"typ": "Pubcomp", "pid": 77}), v5_to_json(&v5::Packet::Pubcomp(v5::Pubcomp::new_success(pid))));
    for c in V5_DISCONNECT_RC {
        ctor(out, "v5", "Coded::new", json!({"typ": "Disconnect", "code": format!("{c:?}")}), v5_to_json(&v5::Packet::Disconnect(v5::Disconnect::new(*c))));
    }
    for c in V5_AUTH_RC {
        ctor(out, "v5", "Coded::new", json!({"typ": "Auth", "code": format!("{c:?}")}), v5_to_json(&v5::Packet::Auth(v5::Auth::new(*c))));
    }
    ctor(out, "v5", "Disconnect::new_normal", json!({}), v5_to_json(&v5::Packet::Disconnect(v5::Disconnect::new_normal())));
    ctor(out, "v5", "Auth::new_success", json!({}), v5_to_json(&v5::Packet::Auth(v5::Auth::new_success())));
    ctor(out, "v3", "Pid::default", json!({}), J::from(Pid::default().value()));
    ctor(out, "v5", "Listed::new", json!({"pid": 77}), v5_to_json(&v5::Packet::Suback(v5::Suback::new(pid, vec![]))));
    ctor(out, "v5", "Listed::new", json!({"pid": 77}), v5_to_json(&v5::Packet::Unsuback(v5::Unsuback::new(pid, vec![]))));
    ctor(out, "v5", "Listed::new", json!({"pid": 77}), v5_to_json(&v5::Packet::Unsubscribe(v5::Unsubscribe::new(pid, vec![tf()]))));
    // tags, conversions, display
    for q in [QoS::Level0, QoS::Level1, QoS::Level2] {
        out.ev(json!({"ev": "QosToSubRC", "qos": qos_num(q), "rc": format!("{:?}", v3::SubscribeReturnCode::from(q))}));
    }
    for pv in [Protocol::V310, Protocol::V311, Protocol::V500] {
        let (n, l) = pv.to_pair();
        let mut b = Vec::new();
        pv.encode(&mut b).unwrap();
        out.ev(json!({"ev": "ProtocolFacts", "pv": proto_name(pv), "display": format!("{pv}"), "encode_len": pv.encode_len(),
                      "pair_name": jbytes(n), "pair_level": l, "bytes": jbytes(&b)}));
    }
    let mut b = Budget { big: 0, huge: 0 };
    for (i, t) in V3::types().iter().enumerate() {
        let p = V3::gen(&mut rng, &mut b, t);
        out.ev(json!({"ev": "GetType", "fam": "v3", "packet": V3::to_json(&p), "typ": format!("{:?}", p.get_type())}));
        let _ = i;
    }
    for t in V5::types() {
        let p = V5::gen(&mut rng, &mut b, t);
        out.ev(json!({"ev": "GetType", "fam": "v5", "packet": V5::to_json(&p), "typ": format!("{:?}", p.get_type())}));
        out.ev(json!({"ev": "DisplayIsDebug", "display": format!("{}", p.get_type()), "debug": format!("{:?}", p.get_type())}));
    }
    // Header::new keeps its five arguments where they were given
    for (i, (dup, q, retain, rl)) in [(false, 0u8, false, 0u32), (true, 1, false, 127), (false, 2, true, 16384), (true, 0, true, 268435455)]
        .into_iter()
        .enumerate()
    {
        let qos = mqtt_proto::QoS::from_u8(q).unwrap();
        let h3 = v3::Header::new(v3::PacketType::Publish, dup, qos, retain, rl);
        let h5 = v5::Header::new(v5::PacketType::Publish, dup, qos, retain, rl);
        for (fam, typ, d, qq, r, l) in [("v3", format!("{:?}", h3.typ), h3.dup, h3.qos as u8, h3.retain, h3.remaining_len),
                                        ("v5", format!("{:?}", h5.typ), h5.dup, h5.qos as u8, h5.retain, h5.remaining_len)] {
            out.ev(json!({"ev": "HeaderNew", "fam": fam, "in": ["Publish", dup, q, retain, [rl >> 16, rl & 0xFFFF]],
                          "out": [typ, d, qq, r, [l >> 16, l & 0xFFFF]]}));
        }
        let _ = i;
    }
    let ups = vec![v5::UserProperty { name: std::sync::Arc::new("k".into()), value: std::sync::Arc::new("v".into()) }];
    let u: v5::UnsubscribeProperties = ups.clone().into();
    out.ev(json!({"ev": "HeaderNew", "fam": "v5", "in": [ups.len()], "out": [u.user_properties.len()]}));
    for id in crate::tokens::ALL_PROP_IDS {
        if let Ok(pid) = v5::PropertyId::from_u8(id) {
            out.ev(json!({"ev": "DisplayIsDebug", "display": format!("{pid}"), "debug": format!("{pid:?}")}));
        }
    }
}
