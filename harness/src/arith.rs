//! C15 / C19 drivers: exhaustive sweeps of the scalar helpers, summarised losslessly as run
//! tables (validated against VarInt.tla / Pid.tla by TLC), plus point and pattern events.

use std::convert::TryFrom;
use std::io::Write;
use std::sync::Arc;

use futures_lite::future::block_on;
use mqtt_proto::{
    decode_raw_header, header_len, remaining_len, total_len, v3, v5, var_int_len, Encodable,
    GenericPollPacket, GenericPollPacketState, Pid, PollHeader,
};
use serde_json::{json, Value as J};

use crate::io::{drive, guarded, RStep, ScriptedReader};
use crate::model::{err3_to_json, err5_to_json};
use crate::out::Out;

pub const MAXV: u64 = 268_435_455;

fn nthreads() -> usize {
    std::thread::available_parallelism()
        .map(|n| n.get())
        .unwrap_or(4)
        .min(16)
}

/// Run-length encode `f` over `lo..=hi` in parallel. Values are JSON-able i64 (i64::MIN = error).
fn runs<F: Fn(u64) -> i64 + Sync>(lo: u64, hi: u64, f: F) -> Vec<(u64, u64, i64)> {
    let n = nthreads() as u64;
    let span = hi - lo + 1;
    let chunk = (span + n - 1) / n;
    let mut parts: Vec<Vec<(u64, u64, i64)>> = Vec::new();
    std::thread::scope(|s| {
        let mut hs = Vec::new();
        for t in 0..n {
            let a = lo + t * chunk;
            if a > hi {
                break;
            }
            let b = (a + chunk - 1).min(hi);
            let f = &f;
            hs.push(s.spawn(move || {
                let mut v: Vec<(u64, u64, i64)> = Vec::new();
                let mut x = a;
                while x <= b {
                    let y = f(x);
                    match v.last_mut() {
                        Some(l) if l.2 == y => l.1 = x,
                        _ => v.push((x, x, y)),
                    }
                    x += 1;
                }
                v
            }));
        }
        for h in hs {
            parts.push(h.join().expect("sweep thread"));
        }
    });
    let mut out: Vec<(u64, u64, i64)> = Vec::new();
    for p in parts {
        for r in p {
            match out.last_mut() {
                Some(l) if l.2 == r.2 && l.1 + 1 == r.0 => l.1 = r.1,
                _ => out.push(r),
            }
        }
    }
    out
}

const ERRV: i64 = i64::MIN;
const PANICV: i64 = i64::MIN + 1;

fn jruns(r: &[(u64, u64, i64)]) -> J {
    J::Array(
        r.iter()
            .map(|(a, b, v)| {
                // errors / panics travel as the sentinels -1000000001 / -1000000002 (TLC cannot
                // compare an integer with a string)
                let val = if *v == ERRV {
                    -1_000_000_001
                } else if *v == PANICV {
                    -1_000_000_002
                } else {
                    *v
                };
                json!([a, b, val])
            })
            .collect(),
    )
}

fn guard_i64(f: impl FnOnce() -> i64) -> i64 {
    guarded(f).unwrap_or(PANICV)
}

/// the four public length helpers over the whole domain (+ the first invalid values)
pub fn helper_tables(out: &mut Out, hi_extra: u64) {
    let hi = MAXV + hi_extra;
    let t = runs(0, hi, |n| {
        guard_i64(|| match var_int_len(n as usize) {
            Ok(k) => k as i64,
            Err(_) => ERRV,
        })
    });
    out.ev(json!({"ev": "HelperRuns", "fn": "var_int_len", "lo": 0, "hi": hi, "runs": jruns(&t)}));
    let t = runs(0, hi, |n| {
        guard_i64(|| match total_len(n as usize) {
            Ok(k) => k as i64 - n as i64,
            Err(_) => ERRV,
        })
    });
    out.ev(json!({"ev": "HelperRuns", "fn": "total_len_minus_n", "lo": 0, "hi": hi, "runs": jruns(&t)}));
    // header_len / remaining_len are defined on valid totals only: index them by n, t = TotalLen(n)
    // computed with the library's own total_len (validated by the table above)
    let t = runs(0, MAXV, |n| {
        guard_i64(|| match total_len(n as usize) {
            Ok(t) => header_len(t) as i64,
            Err(_) => ERRV,
        })
    });
    out.ev(json!({"ev": "HelperRuns", "fn": "header_len_of_total", "lo": 0, "hi": MAXV, "runs": jruns(&t)}));
    let t = runs(0, MAXV, |n| {
        guard_i64(|| match total_len(n as usize) {
            Ok(t) => remaining_len(t) as i64 - n as i64,
            Err(_) => ERRV,
        })
    });
    out.ev(json!({"ev": "HelperRuns", "fn": "remaining_len_of_total_minus_n", "lo": 0, "hi": MAXV, "runs": jruns(&t)}));
}

/// the library's writer, reached through the public SubscribeProperties encoder:
/// `[property length][0x0B][var int]`
pub fn lib_write_var_int(n: u32) -> Result<Vec<u8>, String> {
    let vbi = v5::VarByteInt::try_from(n).map_err(|e| format!("{e:?}"))?;
    let p = v5::SubscribeProperties {
        subscription_id: Some(vbi),
        user_properties: vec![],
    };
    let mut buf = Vec::with_capacity(8);
    p.encode(&mut buf).map_err(|e| format!("{e:?}"))?;
    Ok(buf)
}

/// A probe header for the generic poll decoder: no body, carries the decoded remaining length
/// out as the "packet". Exercises exactly the header state machine of `GenericPollPacket`.
#[derive(Debug, Clone, Copy)]
pub struct ProbeHeader {
    pub hd: u8,
    pub rl: u32,
}
impl PollHeader for ProbeHeader {
    type Error = mqtt_proto::Error;
    type Packet = (u8, u32);
    fn new_with(hd: u8, remaining_len: u32) -> Result<Self, Self::Error> {
        Ok(ProbeHeader {
            hd,
            rl: remaining_len,
        })
    }
    fn build_empty_packet(&self) -> Option<Self::Packet> {
        Some((self.hd, self.rl))
    }
    fn block_decode(self, _reader: &mut &[u8]) -> Result<Self::Packet, Self::Error> {
        Ok((self.hd, self.rl))
    }
    fn remaining_len(&self) -> usize {
        0
    }
    fn is_eof_error(err: &Self::Error) -> bool {
        err.is_eof()
    }
}

fn probe_poll(bytes: &[u8], chunk: usize) -> J {
    let r = guarded(|| {
        let mut st: GenericPollPacketState<ProbeHeader> = Default::default();
        let mut rd = ScriptedReader::new(Arc::new(bytes.to_vec()), vec![], RStep::Data(chunk));
        rd.logging = false;
        let (o, _) = drive(GenericPollPacket::new(&mut st, &mut rd), 64);
        (o, rd.pos)
    });
    match r {
        Err(m) => json!({"k": "panic", "msg": m}),
        Ok((None, _)) => json!({"k": "spin"}),
        Ok((Some(Ok((total, _b, (_hd, rl)))), pos)) => {
            json!({"k": "ok", "val": rl, "used": total - 1, "pos": pos})
        }
        Ok((Some(Err(e)), pos)) => {
            let mut j = err3_to_json(&e);
            j["pos"] = J::from(pos);
            j
        }
    }
}

fn raw_header(bytes: &[u8]) -> J {
    let r = guarded(|| {
        let mut rd: &[u8] = bytes;
        let r = block_on(decode_raw_header(&mut rd));
        (r, bytes.len() - rd.len())
    });
    match r {
        Err(m) => json!({"k": "panic", "msg": m}),
        Ok((Ok((_typ, val)), pos)) => json!({"k": "ok", "val": val, "used": pos - 1, "pos": pos}),
        Ok((Err(e), pos)) => {
            let mut j = err3_to_json(&e);
            j["pos"] = J::from(pos);
            j
        }
    }
}

fn subprops_decode(bytes: &[u8]) -> J {
    // [plen][0x0B][varint] through the v5 property decoder
    let r = guarded(|| {
        let mut rd: &[u8] = bytes;
        block_on(v5::SubscribeProperties::decode_async(
            &mut rd,
            v5::PacketType::Subscribe,
        ))
    });
    match r {
        Err(m) => json!({"k": "panic", "msg": m}),
        Ok(Ok(p)) => match p.subscription_id {
            Some(v) => json!({"k": "ok", "val": v.value()}),
            None => json!({"k": "none"}),
        },
        Ok(Err(e)) => err5_to_json(&e),
    }
}

/// real v3 poll decoder on `30 <varint>`: the state after the header carries remaining_len / total
fn v3_poll_header(bytes: &[u8]) -> J {
    let r = guarded(|| {
        let mut st = v3::PollPacketState::default();
        let mut rd = ScriptedReader::new(Arc::new(bytes.to_vec()), vec![], RStep::Data(1));
        rd.logging = false;
        let (o, _) = drive(v3::PollPacket::new(&mut st, &mut rd), 64);
        let s = match &st {
            GenericPollPacketState::Body(b) => {
                json!({"phase": "Body", "total": b.total, "rl": b.header.remaining_len, "buflen": b.buf.len()})
            }
            GenericPollPacketState::Header(h) => {
                json!({"phase": "Header", "var_idx": h.var_idx, "var_int": h.var_int})
            }
        };
        let res = match o {
            None => json!({"k": "spin"}),
            Some(Ok((t, _, _))) => json!({"k": "ok", "total": t}),
            Some(Err(e)) => err3_to_json(&e),
        };
        (s, res)
    });
    match r {
        Err(m) => json!({"k": "panic", "msg": m}),
        Ok((s, res)) => json!({"state": s, "res": res}),
    }
}

fn point(out: &mut Out, n: u64) {
    let vlen = guarded(|| var_int_len(n as usize));
    let tlen = guarded(|| total_len(n as usize));
    let mut ev = json!({"ev": "VarInt", "n": n});
    ev["vlen"] = match vlen {
        Ok(Ok(k)) => json!({"k": "ok", "val": k}),
        Ok(Err(e)) => err3_to_json(&e),
        Err(m) => json!({"k": "panic", "msg": m}),
    };
    ev["tlen"] = match &tlen {
        Ok(Ok(k)) => json!({"k": "ok", "val": k}),
        Ok(Err(e)) => err3_to_json(e),
        Err(m) => json!({"k": "panic", "msg": m}),
    };
    if let Ok(Ok(t)) = tlen {
        ev["hlen"] = J::from(guarded(|| header_len(t) as i64).unwrap_or(-1));
        ev["rlen"] = J::from(guarded(|| remaining_len(t) as i64).unwrap_or(-1));
    }
    if n <= MAXV {
        match guarded(|| lib_write_var_int(n as u32)) {
            Ok(Ok(b)) => {
                ev["props_bytes"] = crate::model::jbytes(&b);
                if b.len() >= 3 {
                    let enc = &b[2..];
                    let mut frame = vec![0x30u8];
                    frame.extend_from_slice(enc);
                    ev["raw"] = raw_header(&frame);
                    ev["probe"] = probe_poll(&frame, 1);
                    ev["probe_all"] = probe_poll(&frame, usize::MAX);
                    ev["poll3"] = v3_poll_header(&frame);
                    ev["props"] = subprops_decode(&b);
                }
            }
            Ok(Err(m)) => ev["props_bytes"] = json!({"k": "err", "msg": m}),
            Err(m) => ev["props_bytes"] = json!({"k": "panic", "msg": m}),
        }
    } else if n <= u32::MAX as u64 {
        ev["vbi"] = match v5::VarByteInt::try_from(n as u32) {
            Ok(_) => json!({"k": "ok"}),
            Err(e) => err5_to_json(&e),
        };
    }
    out.ev(ev);
}

fn patterns(out: &mut Out) {
    let alpha = [0x00u8, 0x01, 0x7F, 0x80, 0x81, 0xFF];
    let mut cur: Vec<Vec<u8>> = vec![vec![]];
    for _len in 1..=5 {
        let mut next = Vec::new();
        for p in &cur {
            for a in alpha {
                let mut q = p.clone();
                q.push(a);
                next.push(q);
            }
        }
        for p in &next {
            let mut frame = vec![0xC0u8];
            frame.extend_from_slice(p);
            let mut props = vec![];
            // as a subscription identifier inside a property block (declared length = 1 + len)
            props.push((1 + p.len()) as u8);
            props.push(0x0B);
            props.extend_from_slice(p);
            out.ev(json!({"ev": "VarIntPat", "bytes": crate::model::jbytes(p),
                          "raw": raw_header(&frame), "probe": probe_poll(&frame, 1),
                          "probe_all": probe_poll(&frame, usize::MAX),
                          "v3": real_poll_err::<crate::fam::V3>(&frame),
                          "v5": real_poll_err::<crate::fam::V5>(&frame)}));
        }
        cur = next;
    }
}

/// real poll decoders on `C0 <pattern>`: only the header-level verdict is of interest here
fn real_poll_err<F: crate::fam::Fam>(frame: &[u8]) -> J {
    let r = guarded(|| {
        let mut st: GenericPollPacketState<F::Header> = Default::default();
        let mut rd = ScriptedReader::new(Arc::new(frame.to_vec()), vec![], RStep::Data(1));
        rd.logging = false;
        let (o, _) = drive(GenericPollPacket::new(&mut st, &mut rd), 64);
        (o.map(|r| r.map(|(t, _, _)| t)), rd.pos)
    });
    match r {
        Err(m) => json!({"k": "panic", "msg": m}),
        Ok((None, _)) => json!({"k": "spin"}),
        Ok((Some(Ok(t)), pos)) => json!({"k": "ok", "total": t, "pos": pos}),
        Ok((Some(Err(e)), pos)) => {
            let mut j = F::err_json(&e);
            j["pos"] = J::from(pos);
            j
        }
    }
}

/// writer table + reader sweeps over the whole domain (thorough tier)
fn full_codec_sweep(out: &mut Out) {
    // table[k][d][more] = observed byte; first occurrence wins, later ones must agree
    let n = nthreads() as u64;
    let chunk = (MAXV + 1 + n - 1) / n;
    let mut tables: Vec<Vec<i32>> = Vec::new();
    let mut bad: Vec<J> = Vec::new();
    let mut lens: Vec<Vec<(u64, u64, i64)>> = Vec::new();
    std::thread::scope(|s| {
        let mut hs = Vec::new();
        for t in 0..n {
            let a = t * chunk;
            if a > MAXV {
                break;
            }
            let b = (a + chunk - 1).min(MAXV);
            hs.push(s.spawn(move || {
                let mut tab = vec![-1i32; 4 * 128 * 2];
                let mut bad: Vec<J> = Vec::new();
                let mut lens: Vec<(u64, u64, i64)> = Vec::new();
                let mut buf: Vec<u8> = Vec::with_capacity(8);
                for v in a..=b {
                    buf.clear();
                    let vbi = match v5::VarByteInt::try_from(v as u32) {
                        Ok(x) => x,
                        Err(_) => {
                            if bad.len() < 5 {
                                bad.push(json!({"n": v, "what": "VarByteInt::try_from failed"}));
                            }
                            continue;
                        }
                    };
                    let p = v5::SubscribeProperties {
                        subscription_id: Some(vbi),
                        user_properties: vec![],
                    };
                    if p.encode(&mut buf).is_err() || buf.len() < 3 || buf.len() > 6 {
                        if bad.len() < 5 {
                            bad.push(json!({"n": v, "what": "encode failed / odd size"}));
                        }
                        continue;
                    }
                    let enc = &buf[2..];
                    let l = enc.len();
                    // property length byte and encode_len agree with the emitted size
                    if buf[0] as usize != 1 + l || p.encode_len() != buf.len() || buf[1] != 0x0B {
                        if bad.len() < 5 {
                            bad.push(json!({"n": v, "what": "property framing", "bytes": buf.clone()}));
                        }
                    }
                    match lens.last_mut() {
                        Some(x) if x.2 == l as i64 => x.1 = v,
                        _ => lens.push((v, v, l as i64)),
                    }
                    for (k, byte) in enc.iter().enumerate() {
                        let d = ((v >> (7 * k)) & 127) as usize;
                        let more = (k + 1 < l) as usize;
                        let slot = &mut tab[(k * 128 + d) * 2 + more];
                        if *slot == -1 {
                            *slot = *byte as i32;
                        } else if *slot != *byte as i32 && bad.len() < 5 {
                            bad.push(json!({"n": v, "what": "writer byte differs from table", "k": k}));
                        }
                    }
                    // digits above the written width must be zero (nothing dropped)
                    if l < 4 && (v >> (7 * l)) != 0 && bad.len() < 5 {
                        bad.push(json!({"n": v, "what": "writer dropped high digits"}));
                    }
                    // readers: standalone and the poll header automaton
                    let mut frame = [0u8; 5];
                    frame[0] = 0x30;
                    frame[1..1 + l].copy_from_slice(enc);
                    let mut rd: &[u8] = &frame[..1 + l];
                    match block_on(decode_raw_header(&mut rd)) {
                        Ok((_t, val)) if val as u64 == v && rd.is_empty() => {}
                        other => {
                            if bad.len() < 5 {
                                bad.push(json!({"n": v, "what": "decode_raw_header", "got": format!("{other:?}")}));
                            }
                        }
                    }
                    let mut st: GenericPollPacketState<ProbeHeader> = Default::default();
                    let mut rd: &[u8] = &frame[..1 + l];
                    match block_on(GenericPollPacket::new(&mut st, &mut rd)) {
                        Ok((total, _, (_h, rl))) if rl as u64 == v && total == 1 + l && rd.is_empty() => {}
                        other => {
                            if bad.len() < 5 {
                                bad.push(json!({"n": v, "what": "poll header automaton", "got": format!("{:?}", other.map(|x| (x.0, x.2)))}));
                            }
                        }
                    }
                    let mut rd: &[u8] = &buf[..];
                    match block_on(v5::SubscribeProperties::decode_async(&mut rd, v5::PacketType::Subscribe)) {
                        Ok(q) if q == p && rd.is_empty() => {}
                        _ => {
                            if bad.len() < 5 {
                                bad.push(json!({"n": v, "what": "property var-int reader"}));
                            }
                        }
                    }
                }
                (tab, bad, lens)
            }));
        }
        for h in hs {
            let (t, b, l) = h.join().expect("sweep thread");
            tables.push(t);
            bad.extend(b);
            lens.push(l);
        }
    });
    // merge tables
    let mut tab = vec![-1i32; 4 * 128 * 2];
    for t in &tables {
        for (i, v) in t.iter().enumerate() {
            if *v != -1 {
                if tab[i] == -1 {
                    tab[i] = *v;
                } else if tab[i] != *v {
                    bad.push(json!({"what": "tables of two threads disagree", "slot": i}));
                }
            }
        }
    }
    let mut entries = Vec::new();
    for k in 0..4 {
        for d in 0..128 {
            for more in 0..2 {
                let v = tab[(k * 128 + d) * 2 + more];
                if v != -1 {
                    entries.push(json!([k, d, more, v]));
                }
            }
        }
    }
    let mut merged: Vec<(u64, u64, i64)> = Vec::new();
    for p in lens {
        for r in p {
            match merged.last_mut() {
                Some(l) if l.2 == r.2 && l.1 + 1 == r.0 => l.1 = r.1,
                _ => merged.push(r),
            }
        }
    }
    bad.truncate(20);
    out.ev(json!({"ev": "WriterTable", "lo": 0, "hi": MAXV, "entries": entries,
                  "len_runs": jruns(&merged), "mismatches": bad}));
}

pub fn record_varint(out: &mut Out, tier: &str, seed: u64) {
    helper_tables(out, 4096);
    patterns(out);
    let mut pts: Vec<u64> = Vec::new();
    let width = if tier == "thorough" { 4096 } else { 300 };
    for b in [0u64, 128, 16384, 2097152, 268435456] {
        let lo = b.saturating_sub(width);
        for v in lo..=(b + width) {
            pts.push(v);
        }
    }
    // digit-structured values
    let ds = [0u64, 1, 63, 64, 126, 127];
    for a in ds {
        for b in ds {
            for c in ds {
                for d in ds {
                    pts.push(a + 128 * b + 16384 * c + 2097152 * d);
                }
            }
        }
    }
    let mut rng = crate::rng::Rng::new(seed ^ 0x5151);
    let nrand = if tier == "thorough" { 20000 } else { 1500 };
    for _ in 0..nrand {
        pts.push(rng.below(MAXV + 1));
    }
    // (TLC integers are 32-bit signed: nothing above 2^31 - 1 goes into a trace)
    for v in [268435456u64, 268435457, 300000000, (1 << 31) - 1] {
        pts.push(v);
    }
    pts.sort();
    pts.dedup();
    for v in pts {
        point(out, v);
    }
    // values that do not fit 32 bits (TLC integers are 32-bit signed: the value travels as two 16/32-bit halves)
    for v in [1u64 << 32, (1 << 32) + 5, (1 << 32) + (1 << 27), (1 << 32) + 268435455, 1 << 33, 1 << 40, (1 << 48) + 127,
              u64::MAX, u32::MAX as u64, (u32::MAX as u64) + 1, 1 << 31, 3 << 30] {
        let a = guarded(|| var_int_len(v as usize));
        let b = guarded(|| total_len(v as usize));
        let j = |r: Result<Result<usize, mqtt_proto::Error>, String>| match r {
            Ok(Ok(k)) => json!({"k": "ok", "lo": (k as u64 & 0xFFFF_FFF) as u64}),
            Ok(Err(e)) => err3_to_json(&e),
            Err(m) => json!({"k": "panic", "msg": m}),
        };
        out.ev(json!({"ev": "VarIntHuge", "hi": (v >> 28) as u64 & 0x7FFF_FFFF, "hi2": (v >> 59) as u64, "lo": v & 0xFFF_FFFF,
                      "vlen": j(a), "tlen": j(b)}));
    }
    if tier == "thorough" {
        full_codec_sweep(out);
    }
}

// ------------------------------------------------------------------------------------------------
// Pid

pub fn record_pid(out: &mut Out, _tier: &str) {
    // all 65535 x 65536 pairs; results keyed by s = x + u and d = x - u
    let nt = nthreads() as u32;
    const NS: usize = 131072;
    let mut add_tab = vec![i64::MIN; NS]; // index s = x + u  (1..=131070)
    let mut sub_tab = vec![i64::MIN; NS]; // index d + 65536, d = x - u (-65535..=65534)
    let mut bad: Vec<J> = Vec::new();
    let mut pairs: u64 = 0;
    std::thread::scope(|s| {
        let mut hs = Vec::new();
        for t in 0..nt {
            hs.push(s.spawn(move || {
                let mut add_tab = vec![i64::MIN; NS];
                let mut sub_tab = vec![i64::MIN; NS];
                let mut bad: Vec<J> = Vec::new();
                let mut pairs = 0u64;
                let mut x = 1u32 + t;
                while x <= 65535 {
                    let px = Pid::try_from(x as u16).expect("nonzero");
                    for u in 0..=65535u32 {
                        pairs += 1;
                        let r = guarded(|| {
                            let a = (px + u as u16).value();
                            let b = (px - u as u16).value();
                            let mut c = px;
                            c += u as u16;
                            let mut d = px;
                            d -= u as u16;
                            let back = ((px + u as u16) - u as u16).value();
                            (a, b, c.value(), d.value(), back)
                        });
                        match r {
                            Err(m) => {
                                if bad.len() < 5 {
                                    bad.push(json!({"x": x, "u": u, "what": "panic", "msg": m}));
                                }
                            }
                            Ok((a, b, c, d, back)) => {
                                if (a != c || b != d || back as u32 != x) && bad.len() < 5 {
                                    bad.push(json!({"x": x, "u": u, "what": "op-assign / undo mismatch",
                                                    "add": a, "add_assign": c, "sub": b, "sub_assign": d, "back": back}));
                                }
                                let si = (x + u) as usize;
                                if add_tab[si] == i64::MIN {
                                    add_tab[si] = a as i64;
                                } else if add_tab[si] != a as i64 && bad.len() < 5 {
                                    bad.push(json!({"x": x, "u": u, "what": "add not a function of x+u", "add": a}));
                                }
                                let di = (x as i64 - u as i64 + 65536) as usize;
                                if sub_tab[di] == i64::MIN {
                                    sub_tab[di] = b as i64;
                                } else if sub_tab[di] != b as i64 && bad.len() < 5 {
                                    bad.push(json!({"x": x, "u": u, "what": "sub not a function of x-u", "sub": b}));
                                }
                            }
                        }
                    }
                    x += nt;
                }
                (add_tab, sub_tab, bad, pairs)
            }));
        }
        for h in hs {
            let (a, b, bd, p) = h.join().expect("pid sweep thread");
            pairs += p;
            bad.extend(bd);
            for i in 0..NS {
                if a[i] != i64::MIN {
                    if add_tab[i] == i64::MIN {
                        add_tab[i] = a[i];
                    } else if add_tab[i] != a[i] {
                        bad.push(json!({"what": "add tables disagree", "s": i}));
                    }
                }
                if b[i] != i64::MIN {
                    if sub_tab[i] == i64::MIN {
                        sub_tab[i] = b[i];
                    } else if sub_tab[i] != b[i] {
                        bad.push(json!({"what": "sub tables disagree", "d": i as i64 - 65536}));
                    }
                }
            }
        }
    });
    // run-compress result - key
    let mut add_runs: Vec<(i64, i64, i64)> = Vec::new();
    for s in 1..=131070usize {
        let v = add_tab[s];
        let off = if v == i64::MIN { i64::MIN } else { v - s as i64 };
        match add_runs.last_mut() {
            Some(l) if l.2 == off => l.1 = s as i64,
            _ => add_runs.push((s as i64, s as i64, off)),
        }
    }
    let mut sub_runs: Vec<(i64, i64, i64)> = Vec::new();
    for i in 2..=131070usize {
        let d = i as i64 - 65536;
        let v = sub_tab[i];
        let off = if v == i64::MIN { i64::MIN } else { v - d };
        match sub_runs.last_mut() {
            Some(l) if l.2 == off => l.1 = d,
            _ => sub_runs.push((d, d, off)),
        }
    }
    let jr = |r: &Vec<(i64, i64, i64)>| {
        J::Array(
            r.iter()
                .map(|(a, b, v)| {
                    if *v == i64::MIN {
                        json!([a, b, -1_000_000_003i64])
                    } else {
                        json!([a, b, v])
                    }
                })
                .collect(),
        )
    };
    bad.truncate(20);
    out.ev(json!({"ev": "PidTables", "pairs": [pairs / 65536, pairs % 65536], "add_runs": jr(&add_runs), "sub_runs": jr(&sub_runs),
                  "mismatches": bad}));
    // try_from over all raws, run-compressed: value - raw, or "err"
    let mut tr: Vec<(u64, u64, J)> = Vec::new();
    for raw in 0..=65535u32 {
        let v = match guarded(|| Pid::try_from(raw as u16)) {
            Ok(Ok(p)) => json!(["ok", p.value() as i64 - raw as i64]),
            Ok(Err(e)) => json!([format!("{e:?}"), 0]),
            Err(_) => json!(["panic", 0]),
        };
        match tr.last_mut() {
            Some(l) if l.2 == v => l.1 = raw as u64,
            _ => tr.push((raw as u64, raw as u64, v)),
        }
    }
    out.ev(json!({"ev": "PidTryFrom", "runs": tr.iter().map(|(a, b, v)| json!([a, b, v[0], v[1]])).collect::<Vec<_>>(),
                  "default": Pid::default().value()}));
    // explicit point events on the boundary set (validated one by one against Pid.tla)
    let bset = [1u32, 2, 3, 255, 256, 257, 32767, 32768, 65533, 65534, 65535];
    let uset = [0u32, 1, 2, 3, 255, 256, 32767, 32768, 65533, 65534, 65535];
    for x in bset {
        for u in uset {
            let px = Pid::try_from(x as u16).expect("nonzero");
            let r = guarded(|| {
                let mut c = px;
                c += u as u16;
                let mut d = px;
                d -= u as u16;
                ((px + u as u16).value(), (px - u as u16).value(), c.value(), d.value())
            });
            match r {
                Ok((a, b, c, d)) => out.ev(json!({"ev": "PidOp", "x": x, "u": u, "add": a, "sub": b,
                                                  "add_assign": c, "sub_assign": d})),
                Err(m) => out.ev(json!({"ev": "PidOp", "x": x, "u": u, "panic": m})),
            }
        }
    }
    let _ = std::io::stdout().flush();
}
