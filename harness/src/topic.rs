//! C16 / C17 / C18 driver: strings through `TopicFilter` / `TopicName` (predicate, constructor,
//! accessors, comparisons) and through every packet field that carries a topic.

use std::collections::hash_map::DefaultHasher;
use std::convert::TryFrom;
use std::hash::{Hash, Hasher};

use mqtt_proto::{v3, v5, Error, TopicFilter, TopicName};
use serde_json::{json, Value as J};

use crate::io::guarded;
use crate::model::{jbytes, jtext};
use crate::out::Out;
use crate::rng::Rng;

pub fn varint(mut n: usize) -> Vec<u8> {
    let mut v = Vec::new();
    loop {
        let mut b = (n % 128) as u8;
        n /= 128;
        if n > 0 {
            b |= 128;
        }
        v.push(b);
        if n == 0 {
            break;
        }
    }
    v
}
pub fn frame(ctl: u8, body: &[u8]) -> Vec<u8> {
    let mut f = vec![ctl];
    f.extend(varint(body.len()));
    f.extend_from_slice(body);
    f
}
pub fn field(s: &[u8]) -> Vec<u8> {
    let mut f = vec![(s.len() >> 8) as u8, (s.len() & 255) as u8];
    f.extend_from_slice(s);
    f
}

fn acc_of(f: &TopicFilter, s: &str) -> J {
    match guarded(|| {
        json!({"shared": f.is_shared(), "group": opt_text(f.shared_group_name()), "filter": opt_text(f.shared_filter()),
               "info": match f.shared_info() { None => json!([]), Some((g, t)) => json!([[jtext(g), jtext(t)]]) },
               "text_same": f.to_string() == s, "deref_same": &**f == s, "sys": f.is_sys()})
    }) {
        Ok(a) => a,
        Err(m) => json!({"panic": m}),
    }
}

fn v3_verdict(r: Result<Option<v3::Packet>, Error>, want: &str, text: impl Fn(&v3::Packet) -> Option<String>) -> J {
    match r {
        Ok(Some(p)) => match text(&p) {
            Some(t) if t == want => J::from("ok"),
            _ => J::from("ok-but-different-text"),
        },
        Ok(None) => J::from("incomplete"),
        Err(Error::InvalidTopicFilter(s)) if s == want => J::from("InvalidTopicFilter"),
        Err(Error::InvalidTopicName(s)) if s == want => J::from("InvalidTopicName"),
        Err(e) => J::from(format!("{e:?}").chars().take(60).collect::<String>()),
    }
}
fn v5_verdict(
    r: Result<Option<v5::Packet>, v5::ErrorV5>,
    want: &str,
    text: impl Fn(&v5::Packet) -> Option<String>,
) -> J {
    match r {
        Ok(Some(p)) => match text(&p) {
            Some(t) if t == want => J::from("ok"),
            _ => J::from("ok-but-different-text"),
        },
        Ok(None) => J::from("incomplete"),
        Err(v5::ErrorV5::Common(Error::InvalidTopicFilter(s))) if s == want => J::from("InvalidTopicFilter"),
        Err(v5::ErrorV5::Common(Error::InvalidTopicName(s))) if s == want => J::from("InvalidTopicName"),
        Err(v5::ErrorV5::InvalidResponseTopic) => J::from("InvalidResponseTopic"),
        Err(e) => J::from(format!("{e:?}").chars().take(60).collect::<String>()),
    }
}

fn in_packets(s: &str) -> J {
    let b = s.as_bytes();
    let r = guarded(|| {
        // SUBSCRIBE / UNSUBSCRIBE, both families
        let mut body = vec![0, 7];
        body.extend(field(b));
        body.push(1);
        // the accessors of the filters as the decoders built them (C17: the share parts follow from the text,
        // whoever constructed the value)
        let mut pacc = serde_json::Map::new();
        if let Ok(Some(v3::Packet::Subscribe(x))) = v3::Packet::decode(&frame(0x82, &body)) {
            pacc.insert("v3sub".into(), acc_of(&x.topics[0].0, s));
        }
        let v3sub = v3_verdict(v3::Packet::decode(&frame(0x82, &body)), s, |p| match p {
            v3::Packet::Subscribe(x) => Some(x.topics[0].0.to_string()),
            _ => None,
        });
        let mut body = vec![0, 7];
        body.extend(field(b));
        if let Ok(Some(v3::Packet::Unsubscribe(x))) = v3::Packet::decode(&frame(0xA2, &body)) {
            pacc.insert("v3unsub".into(), acc_of(&x.topics[0], s));
        }
        let v3unsub = v3_verdict(v3::Packet::decode(&frame(0xA2, &body)), s, |p| match p {
            v3::Packet::Unsubscribe(x) => Some(x.topics[0].to_string()),
            _ => None,
        });
        let mut body = vec![0, 7, 0];
        body.extend(field(b));
        body.push(1);
        if let Ok(Some(v5::Packet::Subscribe(x))) = v5::Packet::decode(&frame(0x82, &body)) {
            pacc.insert("v5sub".into(), acc_of(&x.topics[0].0, s));
        }
        let v5sub = v5_verdict(v5::Packet::decode(&frame(0x82, &body)), s, |p| match p {
            v5::Packet::Subscribe(x) => Some(x.topics[0].0.to_string()),
            _ => None,
        });
        let mut body = vec![0, 7, 0];
        body.extend(field(b));
        if let Ok(Some(v5::Packet::Unsubscribe(x))) = v5::Packet::decode(&frame(0xA2, &body)) {
            pacc.insert("v5unsub".into(), acc_of(&x.topics[0], s));
        }
        let v5unsub = v5_verdict(v5::Packet::decode(&frame(0xA2, &body)), s, |p| match p {
            v5::Packet::Unsubscribe(x) => Some(x.topics[0].to_string()),
            _ => None,
        });
        // topic names: PUBLISH, will, response topic (PUBLISH and will)
        let mut body = field(b);
        body.extend_from_slice(b"pl");
        let v3pub = v3_verdict(v3::Packet::decode(&frame(0x30, &body)), s, |p| match p {
            v3::Packet::Publish(x) => Some(x.topic_name.to_string()),
            _ => None,
        });
        let mut body = field(b);
        body.push(0);
        body.extend_from_slice(b"pl");
        let v5pub = v5_verdict(v5::Packet::decode(&frame(0x30, &body)), s, |p| match p {
            v5::Packet::Publish(x) => Some(x.topic_name.to_string()),
            _ => None,
        });
        let mut body = vec![0, 4, b'M', b'Q', b'T', b'T', 4, 0x04, 0, 10];
        body.extend(field(b"c"));
        body.extend(field(b));
        body.extend(field(b"m"));
        let v3will = v3_verdict(v3::Packet::decode(&frame(0x10, &body)), s, |p| match p {
            v3::Packet::Connect(x) => x.last_will.as_ref().map(|w| w.topic_name.to_string()),
            _ => None,
        });
        // the same fields in their other shapes: an MQTT 3.1 CONNECT, PUBLISH without payload
        let mut body = vec![0, 6, b'M', b'Q', b'I', b's', b'd', b'p', 3, 0x04, 0, 10];
        body.extend(field(b"c"));
        body.extend(field(b));
        body.extend(field(b"m"));
        let v31will = v3_verdict(v3::Packet::decode(&frame(0x10, &body)), s, |p| match p {
            v3::Packet::Connect(x) => x.last_will.as_ref().map(|w| w.topic_name.to_string()),
            _ => None,
        });
        let v3pub0 = v3_verdict(v3::Packet::decode(&frame(0x30, &field(b))), s, |p| match p {
            v3::Packet::Publish(x) => Some(x.topic_name.to_string()),
            _ => None,
        });
        let mut body = field(b);
        body.push(0);
        let v5pub0 = v5_verdict(v5::Packet::decode(&frame(0x31, &body)), s, |p| match p {
            v5::Packet::Publish(x) => Some(x.topic_name.to_string()),
            _ => None,
        });
        let mut body = field(b);
        body.extend_from_slice(&[3, 0x23, 0, 9]);
        body.extend_from_slice(b"pl");
        let v5pubalias = v5_verdict(v5::Packet::decode(&frame(0x30, &body)), s, |p| match p {
            v5::Packet::Publish(x) => Some(x.topic_name.to_string()),
            _ => None,
        });
        let mut body = vec![0, 4, b'M', b'Q', b'T', b'T', 5, 0x04, 0, 10, 0];
        body.extend(field(b"c"));
        body.push(0);
        body.extend(field(b));
        body.extend(field(b"m"));
        let v5will = v5_verdict(v5::Packet::decode(&frame(0x10, &body)), s, |p| match p {
            v5::Packet::Connect(x) => x.last_will.as_ref().map(|w| w.topic_name.to_string()),
            _ => None,
        });
        // response topic property 0x08 in PUBLISH
        let mut props = vec![0x08];
        props.extend(field(b));
        let mut body = field(b"t");
        body.extend(varint(props.len()));
        body.extend(&props);
        let v5resp = v5_verdict(v5::Packet::decode(&frame(0x30, &body)), s, |p| match p {
            v5::Packet::Publish(x) => x.properties.response_topic.as_ref().map(|t| t.to_string()),
            _ => None,
        });
        let mut body = vec![0, 4, b'M', b'Q', b'T', b'T', 5, 0x04, 0, 10, 0];
        body.extend(field(b"c"));
        body.extend(varint(props.len()));
        body.extend(&props);
        body.extend(field(b"t"));
        body.extend(field(b"m"));
        let v5willresp = v5_verdict(v5::Packet::decode(&frame(0x10, &body)), s, |p| match p {
            v5::Packet::Connect(x) => x
                .last_will
                .as_ref()
                .and_then(|w| w.properties.response_topic.as_ref().map(|t| t.to_string())),
            _ => None,
        });
        json!({"v3sub": v3sub, "v3unsub": v3unsub, "v5sub": v5sub, "v5unsub": v5unsub,
               "v3pub": v3pub, "v5pub": v5pub, "v3will": v3will, "v5will": v5will,
               "v5resp": v5resp, "v5willresp": v5willresp, "v31will": v31will, "v3pub0": v3pub0, "v5pub0": v5pub0, "v5pubalias": v5pubalias,
               "acc": J::Object(pacc)})
    });
    match r {
        Ok(j) => j,
        Err(m) => json!({"panic": m}),
    }
}

fn opt_text(o: Option<&str>) -> J {
    match o {
        None => json!([]),
        Some(s) => json!([jtext(s)]),
    }
}

fn filter_obs(s: &str) -> J {
    let r = guarded(|| {
        let (invalid, sep) = TopicFilter::is_invalid(s);
        let mut j = json!({"invalid": invalid, "sep": sep});
        match TopicFilter::try_from(s.to_string()) {
            Ok(f) => {
                j["ctor"] = J::from("ok");
                let acc = guarded(|| {
                    json!({"shared": f.is_shared(), "group": opt_text(f.shared_group_name()),
                           "filter": opt_text(f.shared_filter()),
                           "info": match f.shared_info() { None => json!([]), Some((g, t)) => json!([[jtext(g), jtext(t)]]) },
                           "text_same": f.to_string() == s, "deref_same": &*f == s, "sys": f.is_sys()})
                });
                j["acc"] = match acc {
                    Ok(a) => a,
                    Err(m) => json!({"panic": m}),
                };
            }
            Err(Error::InvalidTopicFilter(t)) => {
                j["ctor"] = J::from(if t == s { "InvalidTopicFilter" } else { "InvalidTopicFilter-other-text" })
            }
            Err(e) => j["ctor"] = J::from(format!("{e:?}")),
        }
        j
    });
    match r {
        Ok(j) => j,
        Err(m) => json!({"panic": m}),
    }
}

fn name_obs(s: &str) -> J {
    let r = guarded(|| {
        let invalid = TopicName::is_invalid(s);
        let mut j = json!({"invalid": invalid});
        match TopicName::try_from(s.to_string()) {
            Ok(f) => {
                j["ctor"] = J::from("ok");
                j["acc"] = json!({"shared": f.is_shared(), "sys": f.is_sys(),
                                  "text_same": f.to_string() == s, "deref_same": &*f == s});
            }
            Err(Error::InvalidTopicName(t)) => {
                j["ctor"] = J::from(if t == s { "InvalidTopicName" } else { "InvalidTopicName-other-text" })
            }
            Err(e) => j["ctor"] = J::from(format!("{e:?}")),
        }
        j
    });
    match r {
        Ok(j) => j,
        Err(m) => json!({"panic": m}),
    }
}

fn topic_event(out: &mut Out, s: &str, with_pkts: bool) {
    let mut ev = json!({"ev": "Topic", "b": jtext(s), "f": filter_obs(s), "n": name_obs(s)});
    if with_pkts && s.len() <= 65535 {
        ev["pkt"] = in_packets(s);
    }
    out.ev(ev);
}

const CHARS: [&str; 14] = ["/", "+", "#", "$", "s", "h", "a", "r", "e", "x", "\0", "é", "€", "😀"];
const SUFFIX_CHARS: [&str; 7] = ["/", "+", "#", "x", "é", "\0", "g"];

fn enumerate(prefix: &str, chars: &[&str], maxlen: usize, f: &mut dyn FnMut(&str)) {
    let mut cur: Vec<String> = vec![prefix.to_string()];
    f(prefix);
    for _ in 0..maxlen {
        let mut next = Vec::with_capacity(cur.len() * chars.len());
        for p in &cur {
            for c in chars {
                let mut q = p.clone();
                q.push_str(c);
                f(&q);
                next.push(q);
            }
        }
        cur = next;
    }
}

fn hash_of<T: Hash>(t: &T) -> u64 {
    let mut h = DefaultHasher::new();
    t.hash(&mut h);
    h.finish()
}

fn pair_events(out: &mut Out, pool: &[String]) {
    let fs: Vec<TopicFilter> = pool
        .iter()
        .filter_map(|s| TopicFilter::try_from(s.clone()).ok())
        .collect();
    // a second construction of the same texts: through a v5 SUBSCRIBE packet, and a clone
    let via_pkt: Vec<Option<TopicFilter>> = fs
        .iter()
        .map(|f| {
            let mut body = vec![0, 7, 0];
            body.extend(field(f.as_bytes()));
            body.push(1);
            match v5::Packet::decode(&frame(0x82, &body)) {
                Ok(Some(v5::Packet::Subscribe(x))) => Some(x.topics[0].0.clone()),
                _ => None,
            }
        })
        .collect();
    for (i, a) in fs.iter().enumerate() {
        for (k, b) in fs.iter().enumerate() {
            let r = guarded(|| {
                let b2 = via_pkt[k].as_ref().unwrap_or(b);
                let ord = match a.cmp(b2) {
                    std::cmp::Ordering::Less => -1,
                    std::cmp::Ordering::Equal => 0,
                    std::cmp::Ordering::Greater => 1,
                };
                let pord = match a.partial_cmp(b2) {
                    Some(std::cmp::Ordering::Less) => -1,
                    Some(std::cmp::Ordering::Equal) => 0,
                    Some(std::cmp::Ordering::Greater) => 1,
                    None => 2,
                };
                json!({"ev": "FilterPair", "a": jtext(a), "b": jtext(b2), "eq": a == b2, "ne": a != b2, "cmp": ord,
                       "pcmp": pord, "hash_eq": hash_of(a) == hash_of(b2),
                       "hash_is_text_hash": hash_of(a) == hash_of(&a.to_string())})
            });
            match r {
                Ok(j) => out.ev(j),
                Err(m) => out.ev(json!({"ev": "FilterPair", "a": jtext(a), "b": jtext(b), "panic": m})),
            }
            let _ = i;
        }
    }
}

pub fn record_topic(out: &mut Out, tier: &str, seed: u64) {
    let maxlen = if tier == "thorough" { 5 } else { 4 };
    let mut all: Vec<String> = Vec::new();
    enumerate("", &CHARS, maxlen, &mut |s| all.push(s.to_string()));
    let suf = if tier == "thorough" { 5 } else { 4 };
    for pre in [
        "$share/", "$share/g/", "$share/é/", "$share/gg/", "$share//", "$share/+/", "$share/#/", "$share/g+/",
        "$share", "$sharex/", "$shar/", "$Share/", "$SYS/", "$sys/", "$share/g/x/", "$share/€/€/",
        // prefixes other brokers give a meaning to (an implementation that "supports" one of them must still be
        // consistent with its own accessors): ordinary filters here
        "$queue/", "$queue", "$local/", "$exclusive/", "$delayed/5/", "$oshare/g/", "$share/$queue/", "$SHARE/", "$Queue/",
    ] {
        enumerate(pre, &SUFFIX_CHARS, suf, &mut |s| all.push(s.to_string()));
    }
    // characters whose LOW BYTE equals one of the characters the rules mention (NUL, '#', '$', '+', '/'): a validator
    // that truncates a char to a byte, or mixes byte and char indices, confuses them
    const CONFUSABLE: [&str; 9] = ["Ā", "ģ", "Ĥ", "ī", "į", "/", "+", "#", "x"];
    enumerate("", &CONFUSABLE, 4, &mut |s| all.push(s.to_string()));
    // "$share/g/t" with each prefix character replaced by a character of the same low byte, and by its upper case
    let pre: Vec<char> = "$share/".chars().collect();
    for (i, c) in pre.iter().enumerate() {
        for alt in [char::from_u32(0x100 + *c as u32).unwrap(), c.to_ascii_uppercase(), 'x'] {
            let mut v = pre.clone();
            v[i] = alt;
            let p: String = v.into_iter().collect();
            for tail in ["g/t", "g/t/u", "é/+", "g/#", "/t", "g"] {
                all.push(format!("{p}{tail}"));
            }
        }
    }
    // the prefix with ONE string inserted at each position (a scattered / non-contiguous "$share/"), the prefix after
    // a leading level, the prefix twice (a share group literally named "$share"), and the prefix as a later level
    for i in 0..=pre.len() {
        for ins in ["x", "/", "é", "$", "d/", "$share/", "/x/"] {
            let mut p: String = pre[..i].iter().collect();
            p.push_str(ins);
            p.extend(pre[i..].iter());
            for tail in ["", "g", "g/t", "+", "g/+", "+/y", "#", "g/#", "x/y", "/", "g/"] {
                all.push(format!("{p}{tail}"));
            }
        }
    }
    for lead in ["$SYS/cluster/shared/", "$SYS/brokers/+/share/", "$stats/home/area/", "a/$share/", "$SYS/share/"] {
        for tail in ["", "+", "#", "g", "g/t", "x/y", "+/y"] {
            all.push(format!("{lead}{tail}"));
        }
    }
    // every ASCII character, every Latin-1 character and the characters of the next block (same low bytes as ASCII),
    // alone, embedded, after a separator and inside a share group / shared filter
    for c in (0u32..0x180).filter_map(char::from_u32) {
        for ctx in ["{}", "a{}b", "a/{}", "$share/g{}/t", "$share/g/{}", "$share/{}/t", "$share/{}{}/t"] {
            all.push(ctx.replace("{}", &c.to_string()));
        }
    }
    // share names of 1-, 2-, 3- and 4-byte characters in front of every kind of tail (a byte index computed from a
    // character width table)
    for name in ["g", "é", "€", "😀", "𐍈", "\u{10FFFF}", "g😀", "😀g", "😀😀", "é😀€"] {
        for tail in ["", "/", "/x", "/+", "/#", "/x/", "//", "/x/+", "/😀", "/😀/#"] {
            all.push(format!("$share/{name}{tail}"));
        }
    }
    // a forbidden character in the LAST block / first block / middle of names of every length up to 130 and of the
    // lengths a block-wise scanner would treat specially
    for n in (1usize..=130).chain([255, 256, 257, 511, 512, 1024, 4096, 65504, 65535]) {
        for bad in ["+", "#", "\0"] {
            for pos in [0, n / 2, n - 1] {
                let mut t = "a".repeat(n);
                t.replace_range(pos..pos + 1, bad);
                all.push(t);
            }
        }
    }
    // many levels: a counter of separators narrower than the length of the text (255, 256, 257, 258, 300 and 70 000 of them)
    for n in [254usize, 255, 256, 257, 258, 300, 1000, 30000] {
        all.push(format!("$share/g/{}a", "a/".repeat(n)));
        all.push(format!("$share/g{}", "/".repeat(n)));
        all.push("a/".repeat(n));
        all.push(format!("{}#", "+/".repeat(n)));
    }
    // characters that an escaping Display / Debug conversion would alter
    for sp in ["'", "\"", "\\", "\t", "\n", "\u{7f}", "\u{85}", "\u{301}", "\u{200b}", "\u{feff}", "\u{1}"] {
        for ctx in ["{}", "a{}b", "a/{}", "$share/g{}/x{}", "{}/+/#", "$SYS/{}"] {
            all.push(ctx.replace("{}", sp));
        }
    }
    all.sort();
    all.dedup();
    for s in &all {
        topic_event(out, s, true);
    }
    // the largest strings a field can carry, through every packet field (deterministic: valid as name and as filter)
    for n in [65533usize, 65534, 65535] {
        topic_event(out, &"a".repeat(n), true);
        topic_event(out, &format!("$share/g/{}", "a".repeat(n - 9)), true);
        topic_event(out, &format!("{}é", "a".repeat(n - 2)), true);
    }
    // long strings around the 65,535-byte limit (no packets: a field cannot carry more than 65,535)
    let mut rng = Rng::new(seed ^ 0x70_71C);
    let nlong = if tier == "thorough" { 400 } else { 60 };
    let pieces = ["a", "/", "+", "#", "é", "€", "😀", "x/", "/+/", "$share/", "g"];
    for i in 0..nlong {
        let target = match i % 6 {
            0 => 65535,
            1 => 65536,
            2 => 65534,
            3 => 65537,
            4 => 65533,
            _ => rng.range(60000, 70000) as usize,
        };
        let mut s = String::new();
        let style = rng.below(4);
        if rng.chance(1, 3) {
            s.push_str("$share/grp/");
        }
        while s.len() < target {
            let left = target - s.len();
            let p: &str = if style == 0 {
                "a"
            } else if style == 1 {
                if rng.chance(1, 50) { "/" } else { "é" }
            } else {
                *rng.pick(&pieces)
            };
            if p.len() <= left {
                s.push_str(p);
            } else {
                s.push('a');
            }
        }
        topic_event(out, &s, s.len() <= 65535 && i % 4 == 0);
    }
    // comparisons
    let mut pool: Vec<String> = Vec::new();
    let want = if tier == "thorough" { 220 } else { 70 };
    let base = [
        "a", "b", "+", "#", "/", "a/b", "$share/a/b", "$share/b/x", "$share/ab/x", "$share/é/+", "$share/g/#",
        "$share/g//x", "$sys", "$SYS/x", "+/+", "a/#", "é", "€/x", "😀", "$share/€/é", "$share/a/+/b", "$", "$share",
        // share groups / levels that are prefixes of one another and continue with a character below or above '/'
        "$share/a-x/b", "$share/a$/b", "$share/a /b", "$share/a!/b", "$share/a./b", "$share/a0/b", "$share/a/", "$share/a//",
        "$share/a/b/c", "$share/a/b-", "$share/a/b!", "a-", "a!", "a/", "a0", "a/b-", "a/b/", "a-/b", "$share/$share/x/y",
        "$share/$share/x", "$share/ /x", "$share/a/ ", " ", "!", "$share/a/-", "$share/a-/+", "$share/\t/#", "$share/\u{3000}/+/x",
        "$SHARE/x", "$Share/#", "$SHARE/+/x",
        // shared filters that differ ONLY in the share name (same length) / only in the filter part
        "$share/b/b", "$share/ab/+", "$share/é/x", "$share/ab/x", "$share/blue/s/+/t", "$share/gray/s/+/t", "$share/blue/s/+/u",
        "home/x", "home-2/x", "a.b", "a/b.c", "a/b/c", "a/b-c",
    ];
    pool.push(format!("$share/g/{}a", "a/".repeat(257)));
    pool.push(format!("$share/g/{}a", "a/".repeat(256)));
    for b in base {
        pool.push(b.to_string());
    }
    while pool.len() < want {
        let s = rng.pick(&all).clone();
        if !TopicFilter::is_invalid(&s).0 && !pool.contains(&s) {
            pool.push(s);
        }
    }
    pair_events(out, &pool);
}

/// a single string from the command line (replay / debugging)
pub fn record_one(out: &mut Out, bytes: &[u8]) {
    if let Ok(s) = std::str::from_utf8(bytes) {
        topic_event(out, s, true);
    }
    let _ = jbytes(bytes);
}
