//! Small deterministic PRNG (splitmix64 seeding + xoshiro256**), so that a run is a function of
//! VERIF_SEED alone and no external crate is needed.

pub struct Rng {
    s: [u64; 4],
}

fn splitmix(x: &mut u64) -> u64 {
    *x = x.wrapping_add(0x9E3779B97F4A7C15);
    let mut z = *x;
    z = (z ^ (z >> 30)).wrapping_mul(0xBF58476D1CE4E5B9);
    z = (z ^ (z >> 27)).wrapping_mul(0x94D049BB133111EB);
    z ^ (z >> 31)
}

impl Rng {
    pub fn new(seed: u64) -> Rng {
        let mut x = seed;
        Rng {
            s: [splitmix(&mut x), splitmix(&mut x), splitmix(&mut x), splitmix(&mut x)],
        }
    }
    pub fn next(&mut self) -> u64 {
        let r = self.s[1].wrapping_mul(5).rotate_left(7).wrapping_mul(9);
        let t = self.s[1] << 17;
        self.s[2] ^= self.s[0];
        self.s[3] ^= self.s[1];
        self.s[1] ^= self.s[2];
        self.s[0] ^= self.s[3];
        self.s[2] ^= t;
        self.s[3] = self.s[3].rotate_left(45);
        r
    }
    /// uniform in 0..n (n > 0)
    pub fn below(&mut self, n: u64) -> u64 {
        self.next() % n
    }
    pub fn range(&mut self, lo: u64, hi: u64) -> u64 {
        lo + self.below(hi - lo + 1)
    }
    pub fn bool(&mut self) -> bool {
        self.next() & 1 == 1
    }
    /// true with probability num/den
    pub fn chance(&mut self, num: u64, den: u64) -> bool {
        self.below(den) < num
    }
    pub fn pick<'a, T>(&mut self, v: &'a [T]) -> &'a T {
        &v[self.below(v.len() as u64) as usize]
    }
    pub fn byte(&mut self) -> u8 {
        (self.next() & 0xFF) as u8
    }
    /// between lo and hi random bytes
    pub fn bytes_range(&mut self, lo: u64, hi: u64) -> Vec<u8> {
        let n = self.range(lo, hi) as usize;
        self.bytes(n)
    }
    pub fn bytes(&mut self, n: usize) -> Vec<u8> {
        (0..n).map(|_| self.byte()).collect()
    }
}
