#!/usr/bin/env python3
"""Regenerate the measured-sizes table of DESIGN.md section 0.7 from evidence/*.json."""
import json, os, re
ROOT = os.path.dirname(os.path.dirname(os.path.abspath(__file__)))
rows = ["| id | tier | events validated against the spec | TLC states (all runs) | distinct cases | wall |", "|---|---|---|---|---|---|"]
for i in range(1, 21):
    p = "%s/evidence/C%02d.json" % (ROOT, i)
    if not os.path.exists(p):
        continue
    e = json.load(open(p)); c = e.get("coverage", {})
    rows.append("| C%02d | %s | %s | %s | %s | %.0f s |" % (i, e.get("tier"), c.get("events_validated"), c.get("states"),
                                                         c.get("distinct_nontrivial"), e.get("wall_s", 0)))
d = ROOT + "/DESIGN.md"
s = open(d).read()
s = re.sub(r"<!-- EVIDENCE-TABLE-BEGIN -->.*?<!-- EVIDENCE-TABLE-END -->",
           "<!-- EVIDENCE-TABLE-BEGIN -->\n" + "\n".join(rows) + "\n<!-- EVIDENCE-TABLE-END -->", s, flags=re.S)
open(d, "w").write(s)
print("\n".join(rows))
