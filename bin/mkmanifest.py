#!/usr/bin/env python3
"""Regenerate /verif/MANIFEST.json from bin/plans.py (single source of truth for what is claimed)."""
import json
import os
import sys

sys.path.insert(0, os.path.dirname(os.path.abspath(__file__)))
import plans  # noqa: E402

ALL = ["C%02d" % i for i in range(1, 21)]
BASELINE = ("cd /repo && cargo nextest run --workspace --no-fail-fast --tool-config-file pb:/w/lib/nextest.toml "
            "--profile pb --test-threads 8 --offline || cargo test --workspace --no-fail-fast --offline")

checks = []
for pid in ALL:
    if pid not in plans.PLANS:
        continue
    p = plans.PLANS[pid]
    checks.append({
        "property_id": pid,
        "quick_cmd": "bin/check %s quick" % pid,
        "thorough_cmd": "bin/check %s thorough" % pid,
        "evidence_file": "evidence/%s.json" % pid,
        "replay_cmd_template": "bin/check --replay {path}",
        "engine": "tlc+harness",
        "level_claimed": {"category": p["level"], "text": p["claim"], "design_ref": p.get("design_ref", "DESIGN.md section 6")},
        "level_note": p["note"],
        "technique": p["technique"],
    })
na = [{"property_id": pid, "reason": plans.NOT_CLAIMED.get(pid, "check not built yet in this session; see DESIGN.md section 6 for the planned procedure")}
      for pid in ALL if pid not in plans.PLANS]
m = {
    "version": 1,
    "setup_cmd": "bin/setup",
    "hooks": {
        "guard": "mqtt_proto_verif",
        "enable": "harness/.cargo/config.toml passes --cfg mqtt_proto_verif to every crate of the harness build (including /repo); no hook exists in /repo: all state the properties talk about is public (PollPacketState fields are pub + Clone)",
        "baseline_off_cmd": BASELINE,
        "source_commits": [],
        "add_only": True,
    },
    "engines": [
        {"name": "tlc", "path": "bin/vlib.py", "serves_properties": [c["property_id"] for c in checks],
         "kind_free_text": "TLC model checking of /verif/spec + trace validation of ndjson traces recorded from the real code (POSTCONDITION TraceAccepted)"},
        {"name": "apalache", "path": "spec/apalache", "serves_properties": ["C15", "C19"],
         "kind_free_text": "symbolic whole-domain arithmetic lemmas (--cinit, --length=0)"},
        {"name": "harness", "path": "harness", "serves_properties": [c["property_id"] for c in checks],
         "kind_free_text": "Rust driver with scripted transports; path dependency on /repo, rebuilt by every check in dev and release profiles"},
    ],
    "checks": checks,
    "not_applicable": na,
    "notes": "Model-based verification with an explicit TLA+ specification (spec/), see DESIGN.md. Four genuine defects were repaired by fix: commits in /repo and a fifth is recorded as a known finding of C11 (known_findings.txt, DESIGN.md section 0.4). bin/check EXTRA runs the parts of the specification beyond the listed properties (Api.tla, AsyncAbs.tla).",
}
json.dump(m, open("/verif/MANIFEST.json", "w"), indent=1)
print("MANIFEST.json: %d checks, %d not claimed" % (len(checks), len(na)))
