#!/usr/bin/env python3
"""bin/mergeresults.py <RESULTS-quick.md> ... : merge the tables written by several `bin/seedall` runs (each run
under `vp run --with-repo` writes its own seeded/RESULTS-<tier>.md) into /verif/seeded/RESULTS-quick.md and print a
summary (for DESIGN.md section 0.6)."""
import json, os, re, sys
ROOT = os.path.dirname(os.path.dirname(os.path.abspath(__file__)))
rows = {}
for f in sys.argv[1:]:
    for l in open(f):
        m = re.match(r"^\| (\S+) \| (\S+) \| (.*?) \| (\S*) \|$", l.strip())
        if m and m.group(1) != "seed":
            rows[(m.group(1), m.group(2))] = (m.group(3), m.group(4))
def key(k):
    s, p = k
    return (0 if s.startswith("C") else 1 if s.startswith("D") else 2, s, p)
out = ["| seed | check | result | wall |", "|---|---|---|---|"]
stat = {"caught": 0, "missed": [], "ok": 0, "false": [], "tool": []}
per_seed = {}
def applicable(seed, check):
    try:
        m = json.load(open("%s/seeded/%s/meta.json" % (ROOT, seed)))
    except Exception:
        return True
    return check == m.get("property") or check in m.get("also", [])
for k in sorted(rows, key=key):
    res, wall = rows[k]
    if not applicable(*k):
        # the run predates a reclassification recorded in meta.json (note): the change does not violate this property
        res = "not a violation of this property (see meta.json): check stayed silent" if res.startswith("MISSED") else res
        out.append("| %s | %s | %s | %s |" % (k[0], k[1], res, wall))
        continue
    out.append("| %s | %s | %s | %s |" % (k[0], k[1], res, wall))
    if res.startswith("caught"): stat["caught"] += 1; per_seed.setdefault(k[0], []).append(k[1])
    elif res.startswith("MISSED"): stat["missed"].append(k)
    elif res.startswith("ok:"): stat["ok"] += 1
    elif res.startswith("FALSE"): stat["false"].append(k)
    else: stat["tool"].append(k)
open(ROOT + "/seeded/RESULTS-quick.md", "w").write("\n".join(out) + "\n")
seeds = sorted({k[0] for k in rows if not k[0].startswith("benign")}, key=lambda s: key((s, "")))
primary_missed = []
for s in seeds:
    try:
        prim = json.load(open("%s/seeded/%s/meta.json" % (ROOT, s)))["property"]
    except Exception:
        prim = None
    if prim and (s, prim) in rows and not rows[(s, prim)][0].startswith("caught"):
        primary_missed.append((s, prim, rows[(s, prim)][0][:60]))
print("seeded changes run: %d; caught by the check of the property they break: %d; not caught there: %s" % (
    len(seeds), len(seeds) - len(primary_missed), primary_missed))
print("check runs on breaking changes: %d caught, missed (incl. secondary checks): %s" % (stat["caught"], stat["missed"]))
nb = len({k[0] for k in rows if k[0].startswith("benign")})
print("benign changes run: %d; check runs without alarm: %d; false alarms: %s; tool errors: %s" % (nb, stat["ok"], stat["false"], stat["tool"]))
