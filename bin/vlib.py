"""Shared machinery of bin/check: build the harness from /repo's working tree, run TLC / Apalache
on the specification suite under /verif/spec, record traces from the real code, validate them,
write evidence and replay files.  Python 3 standard library only.

Exit codes of a check: 0 = property held on everything explored (KNOWN-FINDING lines allowed),
1 = violation (a line `VIOLATION property=<id> replay=<path>` was printed), 2 = tool error / timeout.
"""
import concurrent.futures
import json
import os
import re
import shutil
import subprocess
import sys
import time

VERIF = os.environ.get("VERIF_ROOT") or os.path.dirname(os.path.dirname(os.path.abspath(__file__)))
SPEC = VERIF + "/spec"
HARNESS = VERIF + "/harness"
JAR_CP = "/opt/veriftools/tla/tla2tools.jar:/opt/veriftools/tla/CommunityModules-deps.jar"
LIBPATH = ":".join([SPEC, SPEC + "/mc", SPEC + "/trace", SPEC + "/gen"])


class ToolError(Exception):
    pass


class Violation(Exception):
    def __init__(self, prop, what, replay):
        super().__init__(what)
        self.prop, self.what, self.replay = prop, what, replay


def log(*a):
    print(*a, flush=True)


class Ctx:
    """One run of one property's check."""

    def __init__(self, prop, tier):
        self.prop = prop
        self.tier = tier
        self.seed = int(os.environ.get("VERIF_SEED", "20260926"))
        self.t0 = time.time()
        self.work = "%s/.work/%s-%s-%d" % (VERIF, prop, tier, os.getpid())
        shutil.rmtree(self.work, ignore_errors=True)
        os.makedirs(self.work + "/tmp", exist_ok=True)
        self.states = 0
        self.transitions = 0
        self.traces = 0
        self.events = 0
        self.evaluations = 0
        self.samples = []
        self.steps = []          # human-readable list of what ran
        self.obligations = []    # apalache
        self.extra = {}
        self.distinct = set()    # hashes of the distinct cases (events / runs) validated against the specification
        self.known = load_known_findings()
        self.known_hits = []
        self.bins = {}

    # ---------------------------------------------------------------- build
    def build(self, profile="release"):
        if profile in self.bins:
            return self.bins[profile]
        t = time.time()
        cmd = ["cargo", "build", "--offline", "--quiet"]
        if profile == "release":
            cmd.append("--release")
        env = dict(os.environ, CARGO_NET_OFFLINE="true")
        r = subprocess.run(cmd, cwd=HARNESS, env=env, stdout=subprocess.PIPE, stderr=subprocess.STDOUT, text=True)
        if r.returncode != 0:
            log(r.stdout[-4000:])
            raise ToolError("cargo build (%s) failed" % profile)
        b = "%s/target/%s/verif-harness" % (HARNESS, "release" if profile == "release" else "debug")
        self.bins[profile] = b
        self.steps.append("build harness (%s) from /repo working tree: %.1fs" % (profile, time.time() - t))
        return b

    def harness(self, args, profile="release", timeout=3600):
        b = self.build(profile)
        r = subprocess.run([b] + [str(a) for a in args], stdout=subprocess.PIPE, stderr=subprocess.PIPE, text=True,
                           timeout=timeout)
        if r.returncode < 0 or (r.returncode in (134, 139) ) or "unsafe precondition" in r.stderr:
            # the harness process was killed by a signal (abort / segfault): the code under test corrupted memory or
            # tripped one of std's undefined-behaviour checks. That is what C03 forbids; for any other property it is
            # a tool error.
            if self.prop == "C03":
                d = "%s/replays/%s" % (VERIF, self.prop)
                os.makedirs(d, exist_ok=True)
                p = "%s/%d-crash.log" % (d, int(time.time()))
                with open(p, "w") as f:
                    f.write("command: %s %s\nexit: %s\n--- stderr\n%s\n" % (b, " ".join(map(str, args)), r.returncode,
                                                                            r.stderr[-6000:]))
                raise Violation(self.prop, "the harness process died (signal / abort) while driving the decoders (%s build): "
                                           "memory-safety violation in the code under test" % profile, p)
            log(r.stderr[-2000:])
            raise ToolError("harness %s was killed (exit %d)" % (" ".join(map(str, args)), r.returncode))
        if r.returncode == 97:
            # the harness's watchdog: ONE call into the code under test did not return within 600 s. Termination is
            # what C03 states; every other decoder / encoder property presupposes it ("returns ...").
            d = "%s/replays/%s" % (VERIF, self.prop)
            os.makedirs(d, exist_ok=True)
            p = "%s/%d-hang.log" % (d, int(time.time()))
            with open(p, "w") as f:
                f.write("command: %s %s\nexit: %s\n--- stderr\n%s\n" % (b, " ".join(map(str, args)), r.returncode,
                                                                        r.stderr[-6000:]))
            raise Violation(self.prop, "a call into the code under test did not return within 600 s (%s build)" % profile, p)
        if r.returncode != 0:
            log(r.stdout[-2000:], r.stderr[-2000:])
            raise ToolError("harness %s exited %d" % (" ".join(map(str, args)), r.returncode))
        last = r.stdout.strip().splitlines()[-1] if r.stdout.strip() else "{}"
        try:
            return json.loads(last)
        except Exception:
            return {}

    def miri_record(self, part, timeout=2400):
        """Run the harness's small sample driver under Miri (cargo +nightly miri run): undefined behaviour in the
        code under test aborts the interpreter. Returns the trace file; raises Violation on UB."""
        outp = "%s/miri-%s.ndjson" % (self.work, part)
        logp = "%s/miri-%s.log" % (self.work, part)
        t = time.time()
        env = dict(os.environ, MIRIFLAGS="-Zmiri-disable-isolation", CARGO_NET_OFFLINE="true")
        cmd = ["cargo", "+nightly", "miri", "run", "--offline", "--target-dir", "target/miri", "--", "record", "miri",
               "--part", part, "--seed", str(self.seed), "--out", outp]
        try:
            r = subprocess.run(cmd, cwd=HARNESS, env=env, stdout=subprocess.PIPE, stderr=subprocess.STDOUT, text=True,
                               timeout=timeout)
        except subprocess.TimeoutExpired:
            raise ToolError("miri run (%s) timed out" % part)
        with open(logp, "w") as f:
            f.write(r.stdout)
        if r.returncode != 0:
            if "Undefined Behavior" in r.stdout or "unsupported operation" not in r.stdout and "error: " in r.stdout and "Miri" in r.stdout:
                d = "%s/replays/%s" % (VERIF, self.prop)
                os.makedirs(d, exist_ok=True)
                p = "%s/%d-miri.log" % (d, int(time.time()))
                shutil.copy(logp, p)
                raise Violation(self.prop, "Miri aborted the run (undefined behaviour) in part %s" % part, p)
            log(r.stdout[-3000:])
            raise ToolError("miri run (%s) failed" % part)
        self.steps.append("Miri: harness sample driver part %s executed under the interpreter without UB, %.0fs" % (
            part, time.time() - t))
        return outp

    # ---------------------------------------------------------------- TLC
    def _java(self, name, extra_props=()):
        wd = "%s/%s" % (self.work, name)
        os.makedirs(wd + "/tmp", exist_ok=True)
        return wd, ["java", "-XX:+UseParallelGC", "-Xss1g", "-DTLA-Library=" + LIBPATH,
                    "-Djava.io.tmpdir=" + wd + "/tmp"] + list(extra_props) + ["-cp", JAR_CP, "tlc2.TLC",
                    "-metadir", wd + "/meta", "-cleanup", "-noGenerateSpecTE"]

    def tlc_mc(self, name, module, cfg=None, cfg_text=None, workers=8, timeout=1800, heap="8g", env=None,
               count=True, want_output=False, coverage=False):
        """Model-check module (in spec/mc or spec/gen) with a cfg file or cfg text. Raises ToolError if TLC
        reports anything but success: a failing lemma of the specification itself is a defect of the
        machinery, not of the code."""
        wd, cmd = self._java(name, ["-Xmx" + heap])
        path = find_module(module)
        if cfg_text is not None:
            cfgp = wd + "/" + module + ".cfg"
            with open(cfgp, "w") as f:
                f.write(cfg_text)
        else:
            cfgp = os.path.join(os.path.dirname(path), cfg or (module + ".cfg"))
        cmd += ["-workers", str(workers)] + (["-coverage", "1"] if coverage else []) + ["-config", cfgp, path]
        t = time.time()
        e = dict(os.environ)
        if env:
            e.update(env)
        try:
            r = subprocess.run(cmd, cwd=os.path.dirname(path), stdout=subprocess.PIPE, stderr=subprocess.STDOUT,
                               text=True, timeout=timeout, env=e)
        except subprocess.TimeoutExpired:
            raise ToolError("TLC %s timed out after %ds" % (module, timeout))
        out = r.stdout
        m = re.search(r"(\d+) states generated, (\d+) distinct states found", out)
        ok = "Model checking completed. No error has been found." in out
        if not ok or not m:
            log(tail_filtered(out))
            raise ToolError("TLC model checking of %s did not succeed" % module)
        gen, dist = int(m.group(1)), int(m.group(2))
        if count:
            self.states += dist
            self.transitions += gen
        never = never_taken_actions(out)
        if never:
            raise ToolError("vacuity: actions never taken in %s: %s" % (module, never))
        self.steps.append("MC %s: %d distinct states, %d generated, %.1fs" % (name, dist, gen, time.time() - t))
        shutil.rmtree(wd, ignore_errors=True)
        return out if want_output else {"distinct": dist, "generated": gen}

    def vectors_from(self, out, path):
        """Extract the JSON vectors TLC printed (`<<"VEC", "<json>">>`) into an ndjson file."""
        n = 0
        with open(path, "a") as f:
            for line in out.splitlines():
                if line.startswith('<<"VEC", "') and line.endswith('">>'):
                    js = line[len('<<"VEC", "'):-3]
                    js = js.replace('\\"', '"').replace("\\\\", "\\")
                    f.write(js + "\n")
                    n += 1
        return n

    def tlc_trace(self, module, trace_files, cfg="Trace.cfg", timeout=1800, procs=8, heap="3g"):
        """Validate recorded traces (one TLC process per file, -workers 1, depth-first queue).
        Returns list of (file, accepted, first_unmatched_index, event_json_or_None, raw_out)."""
        path = find_module(module)
        cfgp = os.path.join(os.path.dirname(path), cfg)

        def one(i_f):
            i, f = i_f
            wd, cmd = self._java("tv-%s-%d" % (module, i), ["-Xmx" + heap,
                                                            "-Dtlc2.tool.queue.IStateQueue=StateDeque"])
            cmd += ["-workers", "1", "-config", cfgp, path]
            e = dict(os.environ, TRACE=f)
            for k in self.known:
                if k["kind"] == "finding" and k["property"] == self.prop and k.get("cls"):
                    e["KNOWN_" + k["cls"]] = "1"
            try:
                r = subprocess.run(cmd, cwd=os.path.dirname(path), stdout=subprocess.PIPE,
                                   stderr=subprocess.STDOUT, text=True, timeout=timeout, env=e)
            except subprocess.TimeoutExpired:
                return (f, None, None, None, "timeout")
            out = r.stdout
            shutil.rmtree(wd, ignore_errors=True)
            m = re.search(r"(\d+) states generated, (\d+) distinct states found", out)
            gen = int(m.group(1)) if m else 0
            dist = int(m.group(2)) if m else 0
            for k in self.known:
                if k["kind"] == "finding" and k["property"] == self.prop and k.get("cls"):
                    n = out.count('<<"KNOWN-FINDING-HIT", "%s">>' % k["cls"])
                    if n:
                        k["hits"] = k.get("hits", 0) + n
                        if k not in self.known_hits:
                            self.known_hits.append(k)
            amb = out.count('<<"AMBIGUOUS"')
            if amb:
                self.extra["catalogue_ambiguous_sites"] = self.extra.get("catalogue_ambiguous_sites", 0) + amb
            if "Model checking completed. No error has been found." in out:
                return (f, True, None, None, (gen, dist))
            um = re.search(r'<<"UNMATCHED", (\d+), (.*)>>\s*$', out, re.M)
            if um and "Postcondition TraceAccepted" in out:
                idx = int(um.group(1))
                return (f, False, idx, None, (gen, dist))
            return (f, None, None, None, out)

        t = time.time()
        res = []
        with concurrent.futures.ThreadPoolExecutor(max_workers=procs) as ex:
            for r in ex.map(one, list(enumerate(trace_files))):
                res.append(r)
        for (f, acc, idx, _e, info) in res:
            if acc is None:
                if info == "timeout":
                    raise ToolError("TLC trace validation of %s timed out" % f)
                log(tail_filtered(info))
                raise ToolError("TLC trace validation of %s failed to run" % f)
            gen, dist = info
            self.states += dist
            self.transitions += gen
        self.steps.append("TV %s: %d trace file(s), %.1fs" % (module, len(trace_files), time.time() - t))
        return res

    # ---------------------------------------------------------------- Apalache
    def apalache(self, module, inv, expect_ok=True, timeout=900):
        path = "%s/apalache/%s.tla" % (SPEC, module)
        od = "%s/ap-%s-%s" % (self.work, module, inv)
        cmd = ["apalache-mc", "check", "--out-dir=" + od + "/out", "--run-dir=" + od + "/run",
               "--cinit=ConstInit", "--inv=" + inv, "--length=0", path]
        t = time.time()
        e = dict(os.environ, JVM_ARGS="-Xmx4g -Djava.io.tmpdir=%s/tmp" % self.work)
        try:
            r = subprocess.run(cmd, cwd=self.work, stdout=subprocess.PIPE, stderr=subprocess.STDOUT, text=True,
                               timeout=timeout, env=e)
        except subprocess.TimeoutExpired:
            raise ToolError("apalache %s/%s timed out" % (module, inv))
        ok = "EXITCODE: OK" in r.stdout and "The outcome is: NoError" in r.stdout
        refuted = "The outcome is: Error" in r.stdout
        if expect_ok and not ok:
            log(r.stdout[-3000:])
            raise ToolError("Apalache did not prove %s!%s" % (module, inv))
        if not expect_ok and not refuted:
            log(r.stdout[-3000:])
            raise ToolError("Apalache did not refute the negative control %s!%s" % (module, inv))
        self.obligations.append({"module": module, "inv": inv, "expected": "holds" if expect_ok else "refuted",
                                 "wall_s": round(time.time() - t, 1)})
        self.steps.append("Apalache %s!%s %s, %.1fs" % (module, inv, "proved over the whole domain" if expect_ok
                                                        else "refuted (negative control)", time.time() - t))
        shutil.rmtree(od, ignore_errors=True)

    # ---------------------------------------------------------------- record + validate
    def record(self, area, name=None, profile="release", shard=0, extra=(), timeout=3600):
        name = name or area
        outp = "%s/%s.ndjson" % (self.work, name)
        t = time.time()
        info = self.harness(["record", area, "--seed", self.seed, "--tier", self.tier, "--out", outp, "--shard",
                             shard] + list(extra), profile=profile, timeout=timeout)
        n = info.get("shards", 1)
        files = ["%s.%d" % (outp, i) for i in range(n)] if shard else [outp]
        self.steps.append("record %s (%s build): %s events in %d file(s), %.1fs" % (
            name, profile, info.get("events"), len(files), time.time() - t))
        return files, info

    def validate(self, module, files, cfg="Trace.cfg", what="", procs=8, per_run=False, timeout=1800):
        """Trace-validate; on the first unmatched event either match a known finding or raise Violation."""
        res = self.tlc_trace(module, files, cfg=cfg, procs=procs, timeout=timeout)
        nev = 0
        for (f, acc, idx, _e, _info) in res:
            lines = count_lines(f)
            if acc:
                nev += lines - 1
                continue
            ev = read_line(f, idx)
            try:
                evj = json.loads(ev)
            except Exception:
                evj = {"raw": ev}
            kf = self.match_known(evj)
            if kf:
                # a recorded finding stops this file's validation at idx; validate the remainder
                self.known_hits.append(kf)
                rest = f + ".rest%d" % idx
                write_without_line(f, idx, rest, evj, per_run)
                res2 = self.tlc_trace(module, [rest], cfg=cfg, procs=1, timeout=timeout)
                res.extend([(r[0], r[1], r[2], r[3], r[4]) for r in res2])
                continue
            replay = self.write_replay(module, cfg, f, idx, evj, per_run)
            raise Violation(self.prop, "%s: event %d of %s is not a behaviour of %s" % (
                what or module, idx, os.path.basename(f), module), replay)
        self.events += nev
        for (f, acc, _i, _e, _info) in res:
            if acc:
                self.count_distinct(f, per_run)
        return nev

    def count_distinct(self, f, per_run):
        """Measured distinctness: hash every event (per-call traces) or every run (state-machine traces) with the
        sequence / run numbers removed; an `End` sentinel is not a case."""
        import hashlib
        strip = re.compile(rb'"(seq|run)":\d+,?')
        try:
            with open(f, "rb") as fh:
                if not per_run:
                    for l in fh:
                        if b'"ev":"End"' in l:
                            continue
                        self.distinct.add(hashlib.blake2b(strip.sub(b"", l), digest_size=8).digest())
                else:
                    h = None
                    for l in fh:
                        if b'"run_start":true' in l:
                            if h is not None:
                                self.distinct.add(h.digest())
                            h = hashlib.blake2b(digest_size=8)
                        if h is not None and b'"ev":"End"' not in l:
                            h.update(strip.sub(b"", l))
                    if h is not None:
                        self.distinct.add(h.digest())
        except OSError:
            pass

    def match_known(self, ev):
        s = json.dumps(ev, sort_keys=True)
        for k in self.known:
            if k["kind"] == "finding" and k["property"] == self.prop and k["pattern"] and k["pattern"] in s:
                return k
        return None

    def write_replay(self, module, cfg, f, idx, evj, per_run):
        d = "%s/replays/%s" % (VERIF, self.prop)
        os.makedirs(d, exist_ok=True)
        p = "%s/%d-%d.json" % (d, int(time.time()), os.getpid())
        ctx = []
        if per_run:
            ctx = run_context(f, idx)
        else:
            ctx = [json.loads(read_line(f, idx))] if idx else []
        with open(p, "w") as o:
            json.dump({"property": self.prop, "tier": self.tier, "seed": self.seed, "trace_module": module,
                       "cfg": cfg, "first_unmatched_index": idx, "event": evj, "events": ctx,
                       "how": "bin/check --replay <this file> re-validates `events` against the trace module; "
                              "the harness is not needed: the events are what the real code did"}, o)
        return p

    # ---------------------------------------------------------------- evidence
    def sample(self, x):
        if len(self.samples) < 6:
            self.samples.append(x)

    def sample_events(self, f, every=None, n=4):
        try:
            tot = count_lines(f)
            step = max(1, tot // (n + 1))
            for i in range(1, n + 1):
                ln = read_line(f, min(tot - 1, max(1, i * step)))
                j = json.loads(ln)
                s = json.dumps(j)
                if len(s) > 1500:
                    j = {"ev": j.get("ev"), "truncated": s[:1400]}
                self.sample(j)
        except Exception:
            pass

    def write_evidence(self, level, rule, distinct, violations=0, assumptions=(), trusted=()):
        cov = {
            "states": max(self.states, 0),
            "transitions": max(self.transitions, 0),
            "traces_validated_against_impl": self.traces,
            "events_validated": self.events,
            "evaluations": max(self.evaluations, self.events),
            "distinct_nontrivial": distinct,
            "rule": rule + " (distinct_nontrivial = number of distinct events / runs by content hash, sequence numbers "
                            "removed; every one is evaluated against the specification, none is skipped as trivial)",
            "samples": self.samples or [{"note": "no sample"}],
            "steps": self.steps,
            "trusted_base": list(trusted),
            "known_findings_hit": [k["line"] for k in self.known_hits],
        }
        if self.obligations:
            cov["apalache_obligations"] = self.obligations
            cov["obligations"] = len(self.obligations)
            cov["discharged"] = len(self.obligations)
        cov.update(self.extra)
        ev = {"property_id": self.prop, "tier": self.tier, "seed": self.seed, "level": level, "coverage": cov,
              "assumptions": list(assumptions), "wall_s": round(time.time() - self.t0, 1),
              "violations": violations}
        os.makedirs(VERIF + "/evidence", exist_ok=True)
        if not re.match(r"^C\d\d$", self.prop):
            return          # only the listed properties have evidence files
        with open("%s/evidence/%s.json" % (VERIF, self.prop), "w") as f:
            json.dump(ev, f, indent=1)

    def cleanup(self):
        shutil.rmtree(self.work, ignore_errors=True)


# -------------------------------------------------------------------- helpers
def event_key(e):
    return e.get("ev")


def find_module(module):
    for d in ("mc", "trace", "gen", ""):
        p = os.path.join(SPEC, d, module + ".tla")
        if os.path.exists(p):
            return p
    raise ToolError("module %s not found" % module)


def tail_filtered(out, n=60):
    lines = [l for l in out.splitlines() if not re.match(r"^(Semantic processing|Parsing file|Linting of)", l)]
    return "\n".join(lines[-n:])


def never_taken_actions(out):
    """With -coverage 1 TLC prints `<Action line ..>: distinct:generated`; an action with 0:0 was never
    taken."""
    never = []
    for m in re.finditer(r"^<(\w+) line \d+, col \d+ to line \d+, col \d+ of module (\w+)>: (\d+):(\d+)", out, re.M):
        if m.group(1) in ("Init", "MInit", "PInit"):
            continue
        if int(m.group(4)) == 0:
            never.append(m.group(1))
    return sorted(set(never))


def count_lines(f):
    n = 0
    with open(f, "rb") as fh:
        for _ in fh:
            n += 1
    return n


def read_line(f, idx):
    with open(f) as fh:
        for i, l in enumerate(fh, 1):
            if i == idx:
                return l
    return "{}"


def run_context(f, idx):
    """Events of the run that contains line idx: from the last `Reset`-like run opener up to idx."""
    evs = []
    with open(f) as fh:
        for i, l in enumerate(fh, 1):
            if i > idx:
                break
            try:
                j = json.loads(l)
            except Exception:
                continue
            if j.get("run_start"):
                evs = []
            evs.append(j)
    return evs


def write_without_line(f, idx, out, evj, per_run):
    """Copy trace f to `out` without the event(s) of the known finding (the whole run for per-run
    traces), renumbering nothing: the trace specs do not depend on seq continuity."""
    run_id = evj.get("run") if per_run else None
    with open(f) as fh, open(out, "w") as o:
        for i, l in enumerate(fh, 1):
            if i == idx:
                continue
            if run_id is not None:
                try:
                    if json.loads(l).get("run") == run_id:
                        continue
                except Exception:
                    pass
            o.write(l)


def load_known_findings():
    p = VERIF + "/known_findings.txt"
    res = []
    if not os.path.exists(p):
        return res
    for line in open(p):
        line = line.strip()
        if not line or line.startswith("#"):
            continue
        m = re.match(r"^(finding|fixed):\s+property=(\S+)\s+(.*)$", line)
        if not m:
            continue
        kind, prop, rest = m.groups()
        pat = ""
        pm = re.search(r"pattern=(\S+)", rest)
        if pm:
            pat = pm.group(1)
        cm = re.search(r"class=([A-Za-z0-9_]+)", rest)
        res.append({"kind": kind, "property": prop, "pattern": pat, "cls": cm.group(1) if cm else "", "line": line})
    return res


def run_check(prop, tier, plan, level, rule, assumptions=(), trusted=()):
    """Run `plan(ctx)`; plan returns the number of distinct non-trivial cases. Handles exit codes,
    evidence and the VIOLATION / KNOWN-FINDING lines."""
    ctx = Ctx(prop, tier)
    try:
        distinct = plan(ctx)
        if ctx.distinct:
            distinct = len(ctx.distinct) + ctx.extra.get("distinct_points_in_exhaustive_sweeps", 0)
        # one line per LISTED finding of this property (whether or not this run's inputs met it), with the hit count
        for k in ctx.known:
            if k["kind"] == "finding" and k["property"] == prop:
                log("KNOWN-FINDING: property=%s %s [met %d time(s) in this run]" % (
                    prop, re.sub(r"^finding:\s+property=\S+\s+", "", k["line"]), k.get("hits", 1 if k in ctx.known_hits else 0)))
        ctx.write_evidence(level, rule, distinct, 0, assumptions, trusted)
        log("OK property=%s tier=%s wall=%.1fs states=%d events=%d" % (prop, tier, time.time() - ctx.t0, ctx.states,
                                                                      ctx.events))
        for s in ctx.steps:
            log("  - " + s)
        ctx.cleanup()
        return 0
    except Violation as v:
        ctx.steps.append("VIOLATION: " + v.what)
        ctx.sample({"violation": v.what, "replay": v.replay})
        try:
            ctx.write_evidence(level, rule, max(2, ctx.events), 1, assumptions, trusted)
        except Exception:
            pass
        log(v.what)
        log("VIOLATION property=%s replay=%s" % (prop, v.replay))
        ctx.cleanup()
        return 1
    except ToolError as e:
        log("TOOL-ERROR property=%s: %s" % (prop, e))
        ctx.cleanup()
        return 2
    except subprocess.TimeoutExpired as e:
        log("TOOL-ERROR property=%s: timeout %s" % (prop, e))
        ctx.cleanup()
        return 2
