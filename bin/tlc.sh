#!/bin/sh
# TLC with the /verif/spec library path, a private temp/meta directory and a deep stack.
# usage: bin/tlc.sh <workdir> <tlc args...>      (always run under `timeout` by the caller)
WORK="$1"; shift
mkdir -p "$WORK/tmp"
exec java -XX:+UseParallelGC -Xss1g ${TLC_HEAP:--Xmx8g} \
  -DTLA-Library=/verif/spec:/verif/spec/mc:/verif/spec/trace:/verif/spec/gen \
  -Djava.io.tmpdir="$WORK/tmp" \
  ${TLC_DFS:+-Dtlc2.tool.queue.IStateQueue=StateDeque} \
  -cp /opt/veriftools/tla/tla2tools.jar:/opt/veriftools/tla/CommunityModules-deps.jar \
  tlc2.TLC -metadir "$WORK/meta" -cleanup -noGenerateSpecTE "$@"
