"""Per-property verification plans (what bin/check runs for each property)."""
import json
import os
import shutil
import subprocess
import time

import vlib
from vlib import ToolError, Violation, log

SPEC_TRUST = ["TLA+ specification suite /verif/spec (wire grammar typed from the OASIS MQTT 3.1.1 / 5.0 texts)",
              "TLC 2.x / Apalache 0.58 / JVM", "harness projection packet <-> abstract JSON (harness/src/model.rs)"]


def first_event(f, ev):
    with open(f) as fh:
        for l in fh:
            j = json.loads(l)
            if j.get("ev") == ev:
                return j
    return None


# ------------------------------------------------------------------------------------------------
def plan_c15(c):
    # (1) whole-domain arithmetic laws, symbolically (Apalache), with a refuted negative control
    c.apalache("Ap_VarInt", "Inv")
    c.apalache("Ap_VarInt", "InvControl", expect_ok=False)
    # (2) the writer loop and the byte-at-a-time reader as state machines vs the declarative definitions
    c.tlc_mc("MC_VarInt", "MC_VarInt")
    # (3) the real helpers / writer / readers: exhaustive tables + point and pattern events
    for prof in (("release", "debug") if c.tier == "thorough" else ("release",)):
        files, info = c.record("varint", name="varint-" + prof, profile=prof, shard=4000)
        n = c.validate("Trace_VarInt", files, what="C15 variable byte integer (%s build)" % prof)
        c.traces += n
        c.sample_events(files[0])
        c.sample_events(files[-1], n=2)
    c.extra["exhaustive"] = True
    c.extra["exhaustive_domain"] = ("var_int_len, total_len, header_len, remaining_len over all 2^28 values "
                                    "(run tables, validated via monotonicity lemmas)" +
                                    ("; writer and three readers over all 2^28 values (table)" if c.tier == "thorough"
                                     else "; writer/readers on boundaries +-300, 6^4 digit-structured and 1500 random "
                                          "values, all 9330 continuation patterns of <= 5 bytes over 6 byte values"))
    c.evaluations = 4 * 268435456 + c.events
    return c.events


def plan_c19(c):
    c.apalache("Ap_Pid", "Inv")
    c.apalache("Ap_Pid", "InvControl", expect_ok=False)
    widths = range(2, 9) if c.tier == "thorough" else range(2, 7)
    base = open(vlib.SPEC + "/mc/MC_Pid.cfg").read()
    for w in widths:
        c.tlc_mc("MC_Pid-W%d" % w, "MC_Pid", cfg_text=base.replace("CONSTANT W = 6", "CONSTANT W = %d" % w),
                 workers=12)
    for prof in ("release", "debug"):
        files, info = c.record("pid", name="pid-" + prof, profile=prof)
        n = c.validate("Trace_Pid", files, cfg="Trace_Pid.cfg", what="C19 packet identifier ring (%s build)" % prof)
        c.traces += n
        t = first_event(files[0], "PidTables")
        c.sample({"ev": "PidTables", "pairs": t["pairs"], "add_runs": t["add_runs"], "sub_runs": t["sub_runs"],
                  "mismatches": t["mismatches"]})
        c.sample_events(files[0], n=3)
    c.extra["exhaustive"] = True
    c.extra["exhaustive_domain"] = "all 65,535 x 65,536 (identifier, amount) pairs through + - += -= and undo, both build profiles"
    c.evaluations = 2 * 65535 * 65536
    return 65535 * 65536


def mc_topic(c):
    base = open(vlib.SPEC + "/mc/MC_Topic.cfg").read()
    free = 5 if c.tier == "thorough" else 4
    for (forced, n) in (("ForcedNone", free), ("ForcedShare6", 6 + free), ("ForcedShare7", 7 + free),
                        ("ForcedShareG", 9 + free)):
        c.tlc_mc("MC_Topic-%s" % forced, "MC_Topic",
                 cfg_text=base.replace("ForcedNone", forced).replace("MaxChars = 4", "MaxChars = %d" % n), workers=12)


def plan_topic(prop, what):
    def plan(c):
        mc_topic(c)
        files, info = c.record("topic", shard=8000)
        n = c.validate("Trace_Topic", files, cfg="Trace_Topic_%s.cfg" % prop, what=what, procs=10)
        c.traces += n
        c.sample_events(files[0])
        c.sample_events(files[-1], n=2)
        c.extra["exhaustive"] = True
        c.extra["exhaustive_domain"] = (
            "all strings of <= %d characters over the 14-character alphabet {/ + # $ s h a r e x NUL e' euro emoji}, "
            "16 '$share'-like prefixes x all suffixes of <= %d characters over 7 characters; plus random strings "
            "around the 65,535-byte limit; filter comparisons over all ordered pairs of a pool" % (
                (5, 5) if c.tier == "thorough" else (4, 4)))
        return n
    return plan


NOT_CLAIMED = {}

PLANS = {
    "C15": {"plan": plan_c15, "level": "model_checking",
            "claim": "Whole-domain arithmetic laws of the variable byte integer proved symbolically on the specification "
                     "(Apalache), writer loop and byte-at-a-time reader model-checked against the declarative definition "
                     "(TLC), and the real helpers bound to the specification: the four public helpers exhaustively over "
                     "all 2^28 values via lossless run tables, writer and the three readers on boundary/digit-structured/"
                     "random values and all continuation patterns (thorough: writer and readers over all 2^28 values).",
            "note": "Trusts VarInt.tla, TLC/Apalache, and the harness's run-length encoder / digit decomposition that "
                    "turns 2^28 observations into tables.",
            "technique": "TLA+ spec + Apalache lemmas + TLC model checking + trace validation of exhaustive sweep tables",
            "design_ref": "DESIGN.md section 6, C15",
            "rule": "cases = values / byte patterns pushed through the real helpers; a case is one recorded event "
                    "(distinct by value or pattern); the four helpers are additionally swept over the whole domain",
            "assumptions": ["run table => every point rests on the harness's run-length encoder and digit decomposition "
                            "(harness/src/arith.rs) and on the Apalache monotonicity lemmas"],
            "trusted": SPEC_TRUST},
    "C19": {"plan": plan_c19, "level": "model_checking",
            "claim": "Ring arithmetic proved on the specification for the 16-bit domain by induction lemmas (Apalache) and "
                     "by literal iteration for widths 2..8 (TLC state graphs); the real Pid type is run over ALL 65,535 x "
                     "65,536 pairs in both build profiles and the resulting tables are validated against Pid.tla.",
            "note": "Trusts Pid.tla, TLC/Apalache and the sweep's table construction (result depends on x+u / x-u only, "
                    "checked on every pair).",
            "technique": "TLA+ spec + Apalache induction lemmas + TLC state graph + trace validation of an exhaustive sweep",
            "design_ref": "DESIGN.md section 6, C19",
            "rule": "all (identifier, amount) pairs, exhaustive; distinct = number of pairs visited by the sweep",
            "assumptions": ["table => every pair rests on the sweep's own consistency check (result depends on x+u / x-u "
                            "only, verified on every pair) and on Ap_Pid!InvKeyMonotone"],
            "trusted": SPEC_TRUST},
}


for _p, _what, _claim in (
        ("C16", "C16 topic filter validation",
         "The single-pass scanner (as designed) is model-checked against the declarative MQTT 4.7/4.8 rule on all strings "
         "of the bounded alphabet incl. forced '$share/' prefixes (TLC); the real TopicFilter::is_invalid, the constructor "
         "and the four packet paths (v3/v5 SUBSCRIBE, UNSUBSCRIBE) are run on every such string and on random strings "
         "around 65,535 bytes, and each recorded verdict is validated against Topic.tla."),
        ("C17", "C17 shared-subscription accessors and comparisons",
         "Uniqueness of the '$share/name/filter' split is checked on the specification (TLC); for every accepted filter of "
         "the bounded-exhaustive and random sets the recorded accessor results (is_shared, group, filter, info, to_string, "
         "deref; panics are data) and, for all ordered pairs of a pool, ==, !=, cmp, partial_cmp and hash equality are "
         "validated against Topic.tla / byte-lexicographic order."),
        ("C18", "C18 topic name validation",
         "The topic-name rule is stated declaratively in Topic.tla; the real TopicName::is_invalid, constructor, accessors "
         "and the six packet paths (v3/v5 PUBLISH, will topic, v5 response topic of PUBLISH and will) are run on every string "
         "of the bounded alphabet and on random strings around 65,535 bytes and validated against it.")):
    PLANS[_p] = {"plan": plan_topic(_p, _what), "level": "model_checking", "claim": _claim,
                 "note": "Trusts Topic.tla (typed from MQTT 4.7 / 4.8.2), TLC, and the harness's frame builder for the "
                         "in-packet paths (harness/src/topic.rs).",
                 "technique": "TLA+ spec + TLC model checking of the scanner automaton + trace validation of bounded-"
                              "exhaustive and random strings run through the real code",
                 "design_ref": "DESIGN.md section 6, %s" % _p,
                 "rule": "one case = one string (or ordered pair of filters) run through the real code; distinct by text; "
                         "all are non-trivial in that each is evaluated against the declarative rule",
                 "trusted": SPEC_TRUST}


def replay(path):
    """Re-validate the recorded events of a violation against their trace module."""
    j = json.load(open(path))
    prop = j["property"]
    c = vlib.Ctx(prop, j.get("tier", "quick"))
    try:
        f = c.work + "/replay.ndjson"
        with open(f, "w") as o:
            for e in j["events"]:
                o.write(json.dumps(e) + "\n")
            o.write(json.dumps({"ev": "End"}) + "\n")
        res = c.tlc_trace(j["trace_module"], [f], cfg=j.get("cfg", "Trace.cfg"), procs=1)
        (_f, acc, idx, _e, _i) = res[0]
        if acc:
            log("replay accepted: the recorded events are behaviours of %s" % j["trace_module"])
            return 0
        log("replay rejected at event %s of %d" % (idx, len(j["events"])))
        log("VIOLATION property=%s replay=%s" % (prop, path))
        return 1
    except ToolError as e:
        log("TOOL-ERROR %s" % e)
        return 2
    finally:
        c.cleanup()
