"""Per-property verification plans (what bin/check runs for each property)."""
import json
import os
import shutil
import subprocess
import time

import vlib
from vlib import ToolError, Violation, log

SPEC_TRUST = ["TLA+ specification suite /verif/spec (wire grammar typed from the OASIS MQTT 3.1.1 / 5.0 texts)",
              "TLC 2.x / Apalache 0.58 / JVM", "harness projection packet <-> abstract JSON (harness/src/model.rs)"]


def first_event(f, ev):
    with open(f) as fh:
        for l in fh:
            j = json.loads(l)
            if j.get("ev") == ev:
                return j
    return None


# ------------------------------------------------------------------------------------------------
def plan_c15(c):
    # (1) whole-domain arithmetic laws, symbolically (Apalache), with a refuted negative control
    c.apalache("Ap_VarInt", "Inv")
    c.apalache("Ap_VarInt", "InvControl", expect_ok=False)
    # (2) the writer loop and the byte-at-a-time reader as state machines vs the declarative definitions
    c.tlc_mc("MC_VarInt", "MC_VarInt", coverage=True)
    # (3) the real helpers / writer / readers: exhaustive tables + point and pattern events
    for prof in (("release", "debug") if c.tier == "thorough" else ("release",)):
        files, info = c.record("varint", name="varint-" + prof, profile=prof, shard=4000)
        n = c.validate("Trace_VarInt", files, what="C15 variable byte integer (%s build)" % prof)
        c.traces += n
        c.sample_events(files[0])
        c.sample_events(files[-1], n=2)
    c.extra["exhaustive"] = True
    c.extra["exhaustive_domain"] = ("var_int_len, total_len, header_len, remaining_len over all 2^28 values "
                                    "(run tables, validated via monotonicity lemmas)" +
                                    ("; writer and three readers over all 2^28 values (table)" if c.tier == "thorough"
                                     else "; writer/readers on boundaries +-300, 6^4 digit-structured and 1500 random "
                                          "values, all 9330 continuation patterns of <= 5 bytes over 6 byte values"))
    c.evaluations = 4 * 268435456 + c.events
    # measured: the domain the helper run tables tile (HelperRuns lo..hi), each value a distinct case
    h = first_event(files[0], "HelperRuns")
    c.extra["distinct_points_in_exhaustive_sweeps"] = h["hi"] - h["lo"] + 1
    return c.events


def plan_c19(c):
    c.apalache("Ap_Pid", "Inv")
    c.apalache("Ap_Pid", "InvControl", expect_ok=False)
    widths = range(2, 9) if c.tier == "thorough" else range(2, 7)
    base = open(vlib.SPEC + "/mc/MC_Pid.cfg").read()
    for w in widths:
        c.tlc_mc("MC_Pid-W%d" % w, "MC_Pid", cfg_text=base.replace("CONSTANT W = 6", "CONSTANT W = %d" % w),
                 workers=12, coverage=True)
    for prof in ("release", "debug"):
        files, info = c.record("pid", name="pid-" + prof, profile=prof)
        n = c.validate("Trace_Pid", files, cfg="Trace_Pid.cfg", what="C19 packet identifier ring (%s build)" % prof)
        c.traces += n
        t = first_event(files[0], "PidTables")
        c.sample({"ev": "PidTables", "pairs": t["pairs"], "add_runs": t["add_runs"], "sub_runs": t["sub_runs"],
                  "mismatches": t["mismatches"]})
        c.sample_events(files[0], n=3)
    c.extra["exhaustive"] = True
    c.extra["exhaustive_domain"] = "all 65,535 x 65,536 (identifier, amount) pairs through + - += -= and undo, both build profiles"
    c.evaluations = 2 * 65535 * 65536
    # measured by the sweep itself (PidTables.pairs = [pairs div 65536, pairs mod 65536]); every pair is a distinct case
    c.extra["distinct_points_in_exhaustive_sweeps"] = t["pairs"][0] * 65536 + t["pairs"][1]
    return 65535 * 65536


def mc_topic(c):
    base = open(vlib.SPEC + "/mc/MC_Topic.cfg").read()
    free = 5 if c.tier == "thorough" else 4
    for (forced, n) in (("ForcedNone", free), ("ForcedShare6", 6 + free), ("ForcedShare7", 7 + free),
                        ("ForcedShareG", 9 + free)):
        c.tlc_mc("MC_Topic-%s" % forced, "MC_Topic",
                 cfg_text=base.replace("ForcedNone", forced).replace("MaxChars = 4", "MaxChars = %d" % n), workers=12,
                 coverage=True)


def plan_topic(prop, what):
    def plan(c):
        mc_topic(c)
        files, info = c.record("topic", shard=8000)
        n = c.validate("Trace_Topic", files, cfg="Trace_Topic_%s.cfg" % prop, what=what, procs=10)
        c.traces += n
        # the same strings in the debug profile (debug assertions / overflow checks on: a panic is data)
        dfiles, dinfo = c.record("topic", name="topic-debug", profile="debug", shard=8000)
        n += c.validate("Trace_Topic", dfiles, cfg="Trace_Topic_%s.cfg" % prop, what=what + " (debug build)", procs=10)
        c.sample_events(files[0])
        c.sample_events(files[-1], n=2)
        c.extra["exhaustive"] = True
        c.extra["exhaustive_domain"] = (
            "all strings of <= %d characters over the 14-character alphabet {/ + # $ s h a r e x NUL e' euro emoji}, "
            "16 '$share'-like prefixes x all suffixes of <= %d characters over 7 characters; plus random strings "
            "around the 65,535-byte limit; filter comparisons over all ordered pairs of a pool" % (
                (5, 5) if c.tier == "thorough" else (4, 4)))
        return n
    return plan


# ------------------------------------------------------------------------------------------------
# wire grammar: bounded-exhaustive packet domain (MC_Wire) = model-level lemmas + GEN source
WIRE_GROUPS = [("v3", "AllTypes3"), ("v5", "TypesA"), ("v5", "TypesB"), ("v5", "TypesC"), ("v5", "TypesD")]


def mc_wire(c, emit=None, invariants=None):
    """Model-check the grammar's own lemmas over the bounded packet domain of both families; with
    emit=<path> the packets of the domain are also written as JSON vectors (GEN direction)."""
    base = open(vlib.SPEC + "/mc/MC_Wire.cfg").read()
    pmax = 2 if c.tier == "thorough" else 1
    nvec = 0
    for fam, grp in WIRE_GROUPS:
        cfg = base.replace('Fam = "v3"', 'Fam = "%s"' % fam).replace("AllTypes3", grp)
        cfg = cfg.replace("PropSubsetMax = 1", "PropSubsetMax = %d" % pmax)
        if emit:
            cfg = cfg.replace("EmitVectors = FALSE", "EmitVectors = TRUE")
        if invariants:
            cfg = cfg.replace("INVARIANT InDomain PrefixIncomplete RoundTrip Lengths TrailingIgnored Emit",
                              "INVARIANT " + " ".join(invariants) + " Emit")
        out = c.tlc_mc("MC_Wire-%s-%s" % (fam, grp), "MC_Wire", cfg_text=cfg, workers=12, want_output=True,
                       timeout=3600)
        if emit:
            nvec += c.vectors_from(out, emit)
    if emit:
        c.steps.append("GEN: %d packets of the bounded domain emitted by TLC as vectors" % nvec)
    return nvec


def gen_replay(c, mode, module, cfg, what, profile="release"):
    """spec -> implementation: TLC enumerates the bounded packet domain, the harness builds each packet as a
    real value and pushes it through the real code, the observations are validated against the spec."""
    vec = c.work + "/vectors.ndjson"
    if os.path.exists(vec):
        os.remove(vec)
    nvec = mc_wire(c, emit=vec)
    files, info = c.record("vectors", name="gen-" + mode + "-" + profile, profile=profile, shard=6000,
                           extra=["--in", vec, "--mode", mode])
    n = c.validate(module, files, cfg=cfg, what=what + " (spec-generated packets)", procs=10)
    c.traces += n
    c.extra["gen_vectors"] = nvec
    c.sample_events(files[0], n=2)
    return n


def tv(c, area, module, cfg, what, profile="release", shard=4000, per_run=False, name=None, procs=10):
    files, info = c.record(area, name=name or (area + "-" + profile), profile=profile, shard=shard)
    n = c.validate(module, files, cfg=cfg, what=what, procs=procs, per_run=per_run)
    c.sample_events(files[0], n=2)
    if len(files) > 1:
        c.sample_events(files[-1], n=1)
    return n, files


def mc_poll(c, emit=None):
    base = open(vlib.SPEC + "/mc/MC_Poll.cfg").read()
    live = open(vlib.SPEC + "/mc/MC_Poll_live.cfg").read()
    for fam in ("v3", "v5"):
        cfg = base.replace('Fam = "v3"', 'Fam = "%s"' % fam)
        if emit:
            cfg = cfg.replace("EmitStreams = FALSE", "EmitStreams = TRUE")
        out = c.tlc_mc("MC_Poll-" + fam, "MC_Poll", cfg_text=cfg, workers=1, want_output=True)
        if emit:
            c.vectors_from(out, emit)
        c.tlc_mc("MC_Poll-live-" + fam, "MC_Poll", cfg_text=live.replace('Fam = "v3"', 'Fam = "%s"' % fam), workers=8)


def mc_encoder(c):
    c.tlc_mc("MC_Encoder", "MC_Encoder", workers=8)


def mc_stream(c):
    base = open(vlib.SPEC + "/mc/MC_Stream.cfg").read()
    n = 4 if c.tier == "thorough" else 3
    for fam in ("v3", "v5"):
        c.tlc_mc("MC_Stream-" + fam, "MC_Stream",
                 cfg_text=base.replace('Fam = "v3"', 'Fam = "%s"' % fam).replace("MaxPackets = 3", "MaxPackets = %d" % n),
                 workers=12)


def plan_c01(c):
    n = gen_replay(c, "roundtrip", "Trace_Wire", "Trace_Wire_C01.cfg", "C01 round trip")
    m, _ = tv(c, "roundtrip", "Trace_Wire", "Trace_Wire_C01.cfg", "C01 round trip (seeded rich packets)")
    c.traces += m
    # the same in the debug profile (debug assertions and overflow checks on): "encoding succeeds" must not depend on it
    d, _ = tv(c, "roundtrip", "Trace_Wire", "Trace_Wire_C01.cfg", "C01 round trip (debug build)", profile="debug")
    c.traces += d
    return n + m + d


def plan_c02(c):
    n = 0
    for prof in ("release", "debug"):
        if prof == "release" or c.tier == "thorough":
            n += gen_replay(c, "lens", "Trace_Wire", "Trace_Wire_C02.cfg", "C02 lengths, %s build" % prof, profile=prof)
        m, _ = tv(c, "lens", "Trace_Wire", "Trace_Wire_C02.cfg", "C02 lengths (%s build)" % prof, profile=prof)
        c.traces += m
        n += m
    c.apalache("Ap_VarInt", "Inv")
    return n


def plan_c09(c):
    mc_encoder(c)
    n = gen_replay(c, "enc", "Trace_Wire", "Trace_Wire_C09.cfg", "C09 encoder entry points")
    m, _ = tv(c, "enc", "Trace_Wire", "Trace_Wire_C09.cfg", "C09 encoder entry points (seeded rich packets)")
    c.traces += m
    d, _ = tv(c, "enc", "Trace_Wire", "Trace_Wire_C09.cfg", "C09 encoder entry points (debug build)", profile="debug")
    c.traces += d
    return n + m + d


def plan_c10(c):
    n = gen_replay(c, "enc", "Trace_Wire", "Trace_Wire_C10.cfg", "C10 conformance of emitted bytes")
    m, _ = tv(c, "enc", "Trace_Wire", "Trace_Wire_C10.cfg", "C10 conformance of emitted bytes (seeded rich packets)")
    c.traces += m
    d, _ = tv(c, "enc", "Trace_Wire", "Trace_Wire_C10.cfg", "C10 conformance of emitted bytes (debug build)", profile="debug")
    c.traces += d
    return n + m + d


def plan_c07(c):
    mc_poll(c)
    n = gen_replay(c, "cut", "Trace_Front", "Trace_Front_C07.cfg", "C07 every cut of every packet of the bounded domain")
    m, _ = tv(c, "cut", "Trace_Front", "Trace_Front_C07.cfg", "C07 incomplete input / trailing bytes")
    c.traces += m
    d, _ = tv(c, "cut", "Trace_Front", "Trace_Front_C07.cfg", "C07 incomplete input / trailing bytes (debug build)", profile="debug")
    c.traces += d
    return n + m + d


def plan_c06(c):
    mc_poll(c)
    m, _ = tv(c, "dec3", "Trace_Front", "Trace_Front_C06.cfg", "C06 agreement of the three front-ends")
    c.traces += m
    d, _ = tv(c, "dec3", "Trace_Front", "Trace_Front_C06.cfg", "C06 agreement of the three front-ends (debug build)", profile="debug")
    c.traces += d
    return m + d


def plan_c03(c):
    mc_poll(c)
    m, _ = tv(c, "dec3", "Trace_Front", "Trace_Front_C03.cfg", "C03 totality on corrupted / random inputs")
    k, _ = tv(c, "short", "Trace_Front", "Trace_Front_C03.cfg", "C03 totality, exhaustive short strings", shard=2000)
    p, _ = tv(c, "poll", "Trace_Poll", "Trace_Poll_C03.cfg", "C03 buffer discipline / no spinning at the transport boundary",
              shard=50000, per_run=True)
    # the same drivers in the debug profile: overflow checks, debug assertions and std's unsafe-precondition checks are
    # on, so arithmetic overflow is a panic (= data) and a violated unsafe precondition aborts the harness (= violation)
    d1, _ = tv(c, "dec3", "Trace_Front", "Trace_Front_C03.cfg", "C03 totality (debug build)", profile="debug")
    d2, _ = tv(c, "poll", "Trace_Poll", "Trace_Poll_C03.cfg", "C03 transport boundary (debug build)", profile="debug",
               shard=50000, per_run=True)
    if c.tier == "thorough":
        # memory-safety clause, exploration strength: the same drivers executed under Miri
        f1 = c.miri_record("dec3")
        c.validate("Trace_Front", [f1], cfg="Trace_Front_C03.cfg", what="C03 sample executed under Miri (decoders)", procs=1)
        f2 = c.miri_record("poll")
        c.validate("Trace_Poll", [f2], cfg="Trace_Poll_C03.cfg", what="C03 sample executed under Miri (poll schedules)",
                   procs=1, per_run=True)
        c.extra["miri"] = "80 inputs x 7 decoder calls and 30 scheduled poll runs interpreted by Miri without UB"
    c.traces += m + k
    c.extra["exhaustive_short_strings"] = "all byte strings of length <= %d through 5 entry points x 2 families" % (
        3 if c.tier == "thorough" else 2)
    return m + k * 256 + p


def plan_c05(c):
    vec = c.work + "/poll-streams.ndjson"
    mc_poll(c, emit=vec)
    # GEN: the model's own stream set on the real decoder, every schedule of the short ones
    gfiles, ginfo = c.record("vectors", name="gen-poll", shard=50000, extra=["--in", vec, "--mode", "poll"])
    c.validate("Trace_Poll", gfiles, cfg="Trace_Poll_C05.cfg", what="C05 schedules of the model's stream set (spec-generated)",
               procs=10, per_run=True)
    c.extra["gen_streams"] = vlib.count_lines(vec)
    p, files = tv(c, "poll", "Trace_Poll", "Trace_Poll_C05.cfg", "C05 schedule independence / cancellation safety",
                  shard=50000, per_run=True)
    tv(c, "poll", "Trace_Poll", "Trace_Poll_C05.cfg", "C05 schedule independence / cancellation safety (debug build)",
       profile="debug", shard=50000, per_run=True)
    runs = 0
    for f in files:
        with open(f) as fh:
            runs += sum(1 for l in fh if '"RunEnd"' in l)
    c.traces += runs
    c.extra["runs"] = runs
    return runs


def plan_c08(c):
    mc_poll(c)
    mc_stream(c)
    p, files = tv(c, "stream", "Trace_Stream", "Trace.cfg", "C08 back-to-back framing", shard=20000, per_run=True)
    tv(c, "stream", "Trace_Stream", "Trace.cfg", "C08 back-to-back framing (debug build)", profile="debug", shard=20000,
       per_run=True)
    runs = 0
    for f in files:
        with open(f) as fh:
            runs += sum(1 for l in fh if '"StreamStart"' in l)
    c.traces += runs
    return runs


def plan_c14(c):
    mc_poll(c)
    mc_encoder(c)
    m, _ = tv(c, "fault", "Trace_Front", "Trace_Front_C14.cfg", "C14 fault injection at every position", shard=60)
    c.traces += m
    d, _ = tv(c, "fault", "Trace_Front", "Trace_Front_C14.cfg", "C14 fault injection at every position (debug build)",
              profile="debug", shard=60)
    c.traces += d
    return m + d


def plan_accept(area, cfg, what, mc=True, gen=None):
    def plan(c):
        if gen:
            # inputs that do not depend on the library's encoder: the spec's encoding of every packet of MC_Wire's domain
            n0 = gen_replay(c, gen, "Trace_Accept", cfg, what)
        elif mc:
            mc_wire(c)
        mc_poll(c)
        m, _ = tv(c, area, "Trace_Accept", cfg, what, shard=4000)
        c.traces += m
        if True:
            d, _ = tv(c, area, "Trace_Accept", cfg, what + " (debug build)", shard=4000, profile="debug")
            c.traces += d
            m += d
        return m
    return plan


NOT_CLAIMED = {}

PLANS = {
    "C15": {"plan": plan_c15, "level": "model_checking",
            "claim": "Whole-domain arithmetic laws of the variable byte integer proved symbolically on the specification "
                     "(Apalache), writer loop and byte-at-a-time reader model-checked against the declarative definition "
                     "(TLC), and the real helpers bound to the specification: the four public helpers exhaustively over "
                     "all 2^28 values via lossless run tables, writer and the three readers on boundary/digit-structured/"
                     "random values and all continuation patterns (thorough: writer and readers over all 2^28 values).",
            "note": "Trusts VarInt.tla, TLC/Apalache, and the harness's run-length encoder / digit decomposition that "
                    "turns 2^28 observations into tables.",
            "technique": "TLA+ spec + Apalache lemmas + TLC model checking + trace validation of exhaustive sweep tables",
            "design_ref": "DESIGN.md section 6, C15",
            "rule": "cases = values / byte patterns pushed through the real helpers; a case is one recorded event "
                    "(distinct by value or pattern); the four helpers are additionally swept over the whole domain",
            "assumptions": ["run table => every point rests on the harness's run-length encoder and digit decomposition "
                            "(harness/src/arith.rs) and on the Apalache monotonicity lemmas"],
            "trusted": SPEC_TRUST},
    "C19": {"plan": plan_c19, "level": "model_checking",
            "claim": "Ring arithmetic proved on the specification for the 16-bit domain by induction lemmas (Apalache) and "
                     "by literal iteration for widths 2..8 (TLC state graphs); the real Pid type is run over ALL 65,535 x "
                     "65,536 pairs in both build profiles and the resulting tables are validated against Pid.tla.",
            "note": "Trusts Pid.tla, TLC/Apalache and the sweep's table construction (result depends on x+u / x-u only, "
                    "checked on every pair).",
            "technique": "TLA+ spec + Apalache induction lemmas + TLC state graph + trace validation of an exhaustive sweep",
            "design_ref": "DESIGN.md section 6, C19",
            "rule": "all (identifier, amount) pairs, exhaustive; distinct = number of pairs visited by the sweep",
            "assumptions": ["table => every pair rests on the sweep's own consistency check (result depends on x+u / x-u "
                            "only, verified on every pair) and on Ap_Pid!InvKeyMonotone"],
            "trusted": SPEC_TRUST},
}


for _p, _what, _claim in (
        ("C16", "C16 topic filter validation",
         "The single-pass scanner (as designed) is model-checked against the declarative MQTT 4.7/4.8 rule on all strings "
         "of the bounded alphabet incl. forced '$share/' prefixes (TLC); the real TopicFilter::is_invalid, the constructor "
         "and the four packet paths (v3/v5 SUBSCRIBE, UNSUBSCRIBE) are run on every such string and on random strings "
         "around 65,535 bytes, and each recorded verdict is validated against Topic.tla."),
        ("C17", "C17 shared-subscription accessors and comparisons",
         "Uniqueness of the '$share/name/filter' split is checked on the specification (TLC); for every accepted filter of "
         "the bounded-exhaustive and random sets the recorded accessor results (is_shared, group, filter, info, to_string, "
         "deref; panics are data) and, for all ordered pairs of a pool, ==, !=, cmp, partial_cmp and hash equality are "
         "validated against Topic.tla / byte-lexicographic order."),
        ("C18", "C18 topic name validation",
         "The topic-name rule is stated declaratively in Topic.tla; the real TopicName::is_invalid, constructor, accessors "
         "and the six packet paths (v3/v5 PUBLISH, will topic, v5 response topic of PUBLISH and will) are run on every string "
         "of the bounded alphabet and on random strings around 65,535 bytes and validated against it.")):
    PLANS[_p] = {"plan": plan_topic(_p, _what), "level": "model_checking", "claim": _claim,
                 "note": "Trusts Topic.tla (typed from MQTT 4.7 / 4.8.2), TLC, and the harness's frame builder for the "
                         "in-packet paths (harness/src/topic.rs).",
                 "technique": "TLA+ spec + TLC model checking of the scanner automaton + trace validation of bounded-"
                              "exhaustive and random strings run through the real code",
                 "design_ref": "DESIGN.md section 6, %s" % _p,
                 "rule": "one case = one string (or ordered pair of filters) run through the real code; distinct by text; "
                         "all are non-trivial in that each is evaluated against the declarative rule",
                 "trusted": SPEC_TRUST}


WIRE_NOTE = ("Trusts Wire.tla (tables typed from the OASIS texts; self-consistency model-checked by MC_Wire), TLC, and the "
             "harness's packet <-> abstract JSON projection.")


def _reg(pid, plan, level, claim, technique, note=WIRE_NOTE, rule=None):
    PLANS[pid] = {"plan": plan, "level": level, "claim": claim, "technique": technique, "note": note,
                  "design_ref": "DESIGN.md section 6, %s" % pid,
                  "rule": rule or "one case = one packet / byte string / run pushed through the real code and validated "
                                  "against the specification; distinct by content",
                  "trusted": SPEC_TRUST}


_reg("C01", plan_c01, "model_checking",
     "The wire grammar's own round-trip lemmas are model-checked over a bounded-exhaustive packet domain of both families "
     "(MC_Wire); every packet of that domain (spec-generated) and seeded rich packets (boundary lengths, long user-property "
     "lists, every code) are pushed through the real encoder and the three real decoders, and each recorded observation is "
     "validated: encoding succeeds, all three decoders return the packet, poll total and raw body are exact. Also a PUBLISH "
     "of EVERY remaining length 4..2300 (every 61st to 70 000), threshold payload sizes x DUP / RETAIN / QoS / properties, and "
     "the bytes the ASYNC encoder hands to a socket-like sink (vectored, short first write) must decode to the packet too.",
     "TLA+ grammar + TLC bounded-exhaustive domain + spec-generated vectors replayed + trace validation")
_reg("C02", plan_c02, "model_checking",
     "Length lemmas of the grammar model-checked (MC_Wire: Lengths) and proved for the header arithmetic (Apalache); on the "
     "real code, in debug AND release builds: emitted size = encode_len, header remaining length = bytes that follow and is "
     "minimal, every separately encodable part writes what it reports, sizes straddling every width boundary, refusal above "
     "268,435,455.", "TLA+ grammar + TLC + Apalache + trace validation in both build profiles")
_reg("C09", plan_c09, "model_checking",
     "Every packet of the bounded domain and seeded rich packets: blocking encoder = repeated = cloned = async encoder under "
     "thirteen sink scripts (all-at-once, 1 byte, 3 bytes, Pending before every 1-byte write, half + Pending, random, and "
     "sinks that take VECTORED writes: all, 7 bytes first, half, around Pendings) and packet = fixed header + streamed body "
     "(whole and 1-byte sinks); two encodings in flight on one thread (Interleave); a PUBLISH of every remaining length "
     "4..2300; validated by TLC against the equations of C09.",
     "TLA+ spec + spec-generated vectors + trace validation of scripted-sink runs")
_reg("C10", plan_c10, "model_checking",
     "The emitted bytes of every packet of the bounded domain, of every wire-numbered enum variant and of seeded rich packets "
     "are parsed by the specification's own grammar (typed from the OASIS documents, independent of the library's tables): "
     "strict and lenient parse must return exactly the original packet, the length must be minimal, the control byte exact.",
     "trace validation against an independent TLA+ grammar")
_reg("C07", plan_c07, "model_checking",
     "Prefix-incompleteness and trailing-byte lemmas model-checked on the grammar (MC_Wire) and EOF-at-every-position on the "
     "poll decoder model (MC_Poll); on the real code every cut of every packet of the bounded domain and of seeded rich packets "
     "through blocking / async / poll decoders, plus random suffixes; every cut of every legal FOREIGN spelling of sampled "
     "packets (short forms spelled out, padded remaining / property lengths, another property order).",
     "TLA+ spec + TLC + spec-generated vectors (every cut) + trace validation")
_reg("C06", plan_c06, "model_checking",
     "Poll-decoder model checked to agree with the lenient grammar on its stream set (MC_Poll: LenientAgrees); the C06 relation "
     "between the three real decoders (and the two header decoders) validated on valid encodings with suffixes, structure-aware "
     "corruptions, header-guided and random bytes.", "TLA+ spec + TLC + trace validation of differential observations")
_reg("C03", plan_c03, "model_checking",
     "Totality, termination (liveness under a fair transport), buffer discipline and no-uninitialised-exposure model-checked on "
     "PollDecoder for every schedule / EOF / fault point; real code: all byte strings up to 2 (thorough: 3) bytes, corrupted and "
     "random inputs through every entry point (a panic or spin is an unmatched event), and the transport-boundary log of the "
     "poll decoder (capacity, buffer offset, coverage of the returned body, polls <= Pendings + 1). The memory-safety clause "
     "proper is only explored, not decided (DESIGN.md section 8).",
     "TLA+ transition system + TLC (safety + liveness) + trace validation incl. exhaustive short inputs",
     note="Memory safety inside unsafe blocks is outside what a TLA+ model decides; claimed at exploration strength only.")
_reg("C05", plan_c05, "model_checking",
     "PollDecoder (implementation-shaped) model-checked for every chunking, Pending, drop/re-create, EOF and fault point on a "
     "stream set of every packet type, and shown to refine the representation-free PollAbs; real code: ALL chunkings x Pending/"
     "drop modes of short streams of every type and seeded random schedules over frames with 1-3 byte length fields, each run's "
     "transport-boundary events validated against PollAbs (within-frame reads, Pending only after Pending, output = one-shot "
     "output, consumed = reported).", "TLA+ transition system + refinement + TLC + trace validation of scheduled runs")
_reg("C08", plan_c08, "model_checking",
     "Framing state machine (next packet index, stream position) validated on seeded packet sequences decoded back to back by "
     "the poll (random chunking), async and blocking front-ends; model side: PollDecoder's ConsumedIsReported / AsksWithinFrame.",
     "TLA+ trace spec (state machine) + TLC + trace validation")
_reg("C14", plan_c14, "fault_enumeration",
     "Fault actions enabled at every position in the PollDecoder model (FailKeepsKind, EofMeansTruncated); real code: for each "
     "seeded packet a read error of 4 kinds or EOF at EVERY position (async + poll), a write error of 4 kinds or zero-length "
     "write at EVERY position (async encoder, streaming body encoder), and the error conversions; validated against the spec.",
     "fault enumeration at every position + TLA+ model with fault actions + trace validation")


_reg("C04", plan_accept("strict", "Trace_Accept_C04.cfg", "C04 strict acceptance = grammar", gen="strict"), "model_checking",
     "The operational grammar (Wire.tla: StrictParse) is model-checked for self-consistency (MC_Wire) and the poll-decoder "
     "model is checked to deliver exactly StrictParse for every schedule (MC_Poll); real code: valid frames, legal non-"
     "canonical spellings, catalogue malformations and re-framed byte-level mutations are given to the poll decoder and each "
     "verdict (accept + field values / reject) is validated against the grammar. Frames containing a possibly non-minimal "
     "var-int pattern are skipped (outside C04's quantifier).",
     "TLA+ grammar as oracle + TLC + trace validation of mutated frames")
_reg("C20", plan_accept("mal", "Trace_Accept_C20.cfg", "C20 documented error per catalogue malformation", mc=False),
     "model_checking",
     "Every catalogue malformation (27 kinds) at every site of seeded packets of every type, and in large length classes: the grammar's first error must be "
     "the variant documented for the malformation (table Documented in Trace_Accept.tla) and the blocking, async and poll "
     "decoders must report exactly the grammar's error (variant and carried value; strict: remaining-length error, lenient: "
     "incomplete, for an inner length past the frame).", "catalogue enumeration at every site + TLA+ operational grammar + "
     "trace validation")
_reg("C11", plan_accept("reenc", "Trace_Accept_C11.cfg", "C11 accepted input re-encodes and decodes to itself", gen="reenc"),
     "model_checking",
     "Inputs: the specification's own encoding of the bounded packet domain, valid encodings (+ suffix), legal non-canonical "
     "spellings (short forms spelled out, reversed property order, non-minimal remaining length), catalogue malformations, "
     "structure-aware corruptions, large length classes, lenient framing at length-width boundaries, PUBLISH of 2^21..2^28-1 "
     "bytes. Whatever any front-end accepts is re-encoded (a panic is data) and re-decoded on all three; the C11 equations are "
     "validated by TLC. One genuine defect is recorded as a known finding (D5, class C11_LENIENT_OVERRUN: the length clause "
     "fails when a lenient front-end overruns the declared frame across a length-width boundary); the check prints "
     "KNOWN-FINDING for it and reports every other violation.",
     "trace validation of decode/re-encode/re-decode observations")
_reg("C12", plan_accept("decoded", "Trace_Accept_C12.cfg", "C12 invariants of decoded packets", gen="decoded"), "model_checking",
     "For every packet any front-end accepts (same input families as C11, with invalid UTF-8 / wildcards / invalid filters "
     "injected at every text-bearing site): every text field checked with the specification's UTF-8 automaton on the raw "
     "bytes; the library's own name/filter predicates and shared accessors run on the decoded values; pids, var-ints and "
     "flagged payloads checked.", "site-injection + trace validation with the spec's UTF-8 DFA")
_reg("C13", plan_accept("cross", "Trace_Accept_C13.cfg", "C13 other family's CONNECT", mc=False), "model_checking",
     "Seeded rich CONNECTs of v3.1, v3.1.1 and v5.0 presented to the other family's blocking, async and poll decoders: "
     "UnexpectedProtocol(found version), async position <= end of protocol level, resuming with the native family's "
     "known-protocol entry point = native packet; plus the full table of 256 levels x 7 protocol names x 2 layouts x 2 decoder "
     "families x 3 front-ends validated against Proto() of the specification.",
     "TLA+ spec + exhaustive name/level table + trace validation")


def plan_extra(c):
    """Beyond the listed properties (not in MANIFEST.json): the rest of the public surface against Api.tla."""
    m, _ = tv(c, "api", "Trace_Api", "Trace.cfg", "EXTRA public surface (constructors, tags, conversions, Display)", shard=0)
    c.traces += m
    # the async / blocking decoder as a transition system (AsyncAbs) and its binding: the decoder stops exactly at the
    # decision point of the specification's parser, on malformed input too
    base = open(vlib.SPEC + "/mc/MC_Async.cfg").read()
    for fam in ("v3", "v5"):
        c.tlc_mc("MC_Async-" + fam, "MC_Async", cfg_text=base.replace('Fam = "v3"', 'Fam = "%s"' % fam), workers=1)
    a, _ = tv(c, "dec3", "Trace_Async", "Trace.cfg", "EXTRA async decoder stops at the parser's decision point")
    c.traces += a
    # the poll decoder's caller-held state against the implementation-shaped PollDecoder.tla, one event per action
    # (one trace file holds one family: Fam <- the family of the first event)
    k = 0
    for fam in ("v3", "v5"):
        files, _ = c.record("pollimpl", name="pollimpl-" + fam, shard=4000, extra=["--fam", fam])
        k += c.validate("Trace_PollImpl", files, cfg="Trace_PollImpl.cfg", per_run=True, procs=12,
                        what="EXTRA caller-held poll state = PollDecoder.tla (%s)" % fam)
    c.traces += k
    return m + a + k


PLANS["EXTRA"] = {"plan": plan_extra, "level": "model_checking", "claim": "not claimed", "technique": "trace validation",
                  "note": "beyond the list", "rule": "one case = one API call", "trusted": SPEC_TRUST}


def replay(path):
    """Re-validate the recorded events of a violation against their trace module."""
    j = json.load(open(path))
    prop = j["property"]
    c = vlib.Ctx(prop, j.get("tier", "quick"))
    try:
        f = c.work + "/replay.ndjson"
        with open(f, "w") as o:
            for e in j["events"]:
                o.write(json.dumps(e) + "\n")
            o.write(json.dumps({"ev": "End"}) + "\n")
        res = c.tlc_trace(j["trace_module"], [f], cfg=j.get("cfg", "Trace.cfg"), procs=1)
        (_f, acc, idx, _e, _i) = res[0]
        if acc:
            log("replay accepted: the recorded events are behaviours of %s" % j["trace_module"])
            return 0
        log("replay rejected at event %s of %d" % (idx, len(j["events"])))
        log("VIOLATION property=%s replay=%s" % (prop, path))
        return 1
    except ToolError as e:
        log("TOOL-ERROR %s" % e)
        return 2
    finally:
        c.cleanup()
