------------------------------ MODULE Trace_Pid ------------------------------
(***************************************************************************)
(* C19: events recorded from the real Pid type, validated against Pid.tla  *)
(* instantiated with W = 16.                                               *)
(*                                                                         *)
(*  PidTables   the harness ran ALL 65,535 x 65,536 (identifier, amount)   *)
(*              pairs through +, -, +=, -= and (x + u) - u.  It checked on  *)
(*              every pair that the in-place operators agree with the pure  *)
(*              ones and that subtraction undoes addition (mismatches are   *)
(*              listed and must be empty), and that x + u depends on the    *)
(*              sum s = x + u only and x - u on the difference d = x - u    *)
(*              only.  It logs the tables result(s) - s and result(d) - d,  *)
(*              run-compressed.  A run is accepted iff the spec gives the   *)
(*              same offset at both ends; the spec's offsets are monotone   *)
(*              in the key (Ap_Pid: InvKeyMonotone), so equal ends imply    *)
(*              equality on the whole run.                                  *)
(*  PidTryFrom  construction from all 65,536 raw values, run-compressed.    *)
(*  PidOp       single operations on the boundary set, checked directly.    *)
(***************************************************************************)
EXTENDS Pid, TraceBase, Integers

VARIABLE l

AddKey(s) == ((s - 1) % R) + 1                 \* Add(x, u) as a function of s = x + u
SubKey(d) == ((d - 1 + 2 * R) % R) + 1         \* Sub(x, u) as a function of d = x - u

TilesZ(runs, lo, hi) ==
    /\ Len(runs) >= 1
    /\ runs[1][1] = lo /\ runs[Len(runs)][2] = hi
    /\ \A i \in 1..Len(runs) : runs[i][1] <= runs[i][2]
    /\ \A i \in 1..(Len(runs) - 1) : runs[i + 1][1] = runs[i][2] + 1 /\ runs[i + 1][3] # runs[i][3]

TablesOK(e) ==
    /\ e.pairs = <<R, 0>>                                   \* 65535 * 65536 pairs visited
    /\ e.mismatches = <<>>
    /\ TilesZ(e.add_runs, 2 - 1, R + R)                     \* s ranges over 1 .. 131070
    /\ \A i \in 1..Len(e.add_runs) :
          /\ e.add_runs[i][3] = AddKey(e.add_runs[i][1]) - e.add_runs[i][1]
          /\ e.add_runs[i][3] = AddKey(e.add_runs[i][2]) - e.add_runs[i][2]
    /\ TilesZ(e.sub_runs, 1 - R, R - 1)                     \* d ranges over -65534 .. 65534
    /\ \A i \in 1..Len(e.sub_runs) :
          /\ e.sub_runs[i][3] = SubKey(e.sub_runs[i][1]) - e.sub_runs[i][1]
          /\ e.sub_runs[i][3] = SubKey(e.sub_runs[i][2]) - e.sub_runs[i][2]

TryFromOK(e) ==
    /\ e.runs = << <<0, 0, "ZeroPid", 0>>, <<1, R, "ok", 0>> >>
    /\ e.default \in 1..R

OpOK(e) ==
    /\ ~Has(e, "panic")
    /\ e.x \in 1..R /\ e.u \in 0..R
    /\ e.add = Add(e.x, e.u) /\ e.add = AddOvf(e.x, e.u)
    /\ e.sub = Sub(e.x, e.u) /\ e.sub = SubOvf(e.x, e.u)
    /\ e.add_assign = e.add /\ e.sub_assign = e.sub
    /\ e.add \in 1..R /\ e.sub \in 1..R

Accept(e) ==
    CASE e.ev = "PidTables"  -> TablesOK(e)
      [] e.ev = "PidTryFrom" -> TryFromOK(e)
      [] e.ev = "PidOp"      -> OpOK(e)
      [] e.ev = "End"        -> l = Len(Rec)
      [] OTHER -> FALSE

\* pid (declared by Pid.tla) carries the result of the last validated PidOp addition
Init == l = 1 /\ pid = 1
Next == /\ l <= Len(Rec) /\ (Accept(Rec[l]) = TRUE) /\ l' = l + 1
        /\ pid' = IF Rec[l].ev = "PidOp" THEN Rec[l].add ELSE pid
Spec == Init /\ [][Next]_<<l, pid>>
=============================================================================
