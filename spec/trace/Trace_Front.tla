---------------------------- MODULE Trace_Front ----------------------------
(***************************************************************************)
(* Per-call events of the decoder / encoder front-ends, validated against  *)
(* Wire.tla (ValidPacket, StartsWithCompleteFrame) and Errors; Prop        *)
(* selects the property whose conjuncts are enforced.                      *)
(*                                                                         *)
(*  C07  Cut    every strict prefix of a valid packet's encoding is        *)
(*              "incomplete" (blocking) / an EOF error (async, poll);      *)
(*              encoding + arbitrary suffix decodes to the packet.         *)
(*  C06  Dec3   blocking = async[EOF -> incomplete], headers likewise;     *)
(*              complete frame: poll accepts => both lenient decoders      *)
(*              return that packet; poll rejects with e other than the     *)
(*              remaining-length error => both return e.                   *)
(*  C03  Dec3   every entry point returns packet / incomplete / error      *)
(*       Short  (never a panic, never a spin), incl. all strings <= 2 (3). *)
(*  C14  Fault  a read error at position k => I/O error of that kind (EOF  *)
(*       Conv   => an error recognised as EOF); a write error / zero write *)
(*              at k => I/O error of that kind / WriteZero after writing   *)
(*              only a prefix; conversions keep the kind.                  *)
(***************************************************************************)
EXTENDS Wire, TraceBase

CONSTANT Prop
VARIABLE l

OkPkt(r, p) == r.k = "ok" /\ r.v = p
SameRes(a, b) == /\ a.k = b.k
                 /\ (a.k = "ok" => a.v = b.v)
                 /\ (a.k = "err" => a.e = b.e /\ a.a = b.a)
Outcome(r) == r.k \in {"ok", "incomplete", "err"}

\* ---- C07
OK07(e) ==
    ValidPacket(e.fam, e.packet) =>
        /\ e.enc.k = "ok"
        /\ \A i \in 1..Len(e.cuts) :
              e.cuts[i][2] = "incomplete" /\ e.cuts[i][3] = "eof" /\ e.cuts[i][4] = "eof"
        /\ (e.all => Len(e.cuts) = e.len /\ \A i \in 1..Len(e.cuts) : e.cuts[i][1] = i - 1)
        /\ e.len = Len(e.enc.bytes)
        /\ OkPkt(e.block_sfx, e.packet) /\ OkPkt(e.async_sfx, e.packet)

\* a valid encoding in another stack's spelling (short forms spelled out, padded lengths, another property order): if
\* the decoders accept the whole of it, every strict prefix of it is incomplete as well
OK07Spelled(e) ==
    (e.full_block.k = "ok" /\ e.full_async.k = "ok" /\ e.full_async.pos = e.len) =>
        /\ Len(e.cuts) = e.len
        /\ \A i \in 1..Len(e.cuts) :
              e.cuts[i][1] = i - 1 /\ e.cuts[i][2] = "incomplete" /\ e.cuts[i][3] = "eof" /\ e.cuts[i][4] = "eof"

\* ---- C06
BlockIsAsync(blk, asy) == IF asy.k = "err" /\ asy.eof THEN blk.k = "incomplete" ELSE SameRes(blk, asy)
PollVsLenient(e, pr) ==
    /\ (pr.k = "ok" => OkPkt(e.block, pr.v) /\ OkPkt(e.async, pr.v))
    /\ (pr.k = "err" /\ pr.e # "InvalidRemainingLength" => SameRes(e.block, pr) /\ SameRes(e.async, pr))
OK06(e) ==
    /\ BlockIsAsync(e.block, e.async)
    /\ BlockIsAsync(e.block, e.async_1)                   \* ... whatever the chunking of the async reader
    /\ (StartsWithCompleteFrame(e.fam, e.bytes) => PollVsLenient(e, e.poll_sched))   \* ... and under a schedule with Pendings / drops
    /\ SameRes(e.hdr_block, e.hdr_async)
    /\ StartsWithCompleteFrame(e.fam, e.bytes) =>
          /\ (e.poll.k = "ok" => OkPkt(e.block, e.poll.v) /\ OkPkt(e.async, e.poll.v))
          /\ (e.poll.k = "err" /\ e.poll.e # "InvalidRemainingLength" =>
                 SameRes(e.block, e.poll) /\ SameRes(e.async, e.poll))

\* ---- C03 (totality part)
\* text handed out inside an error value is a Rust String: it must be well-formed UTF-8 (a String built from
\* unvalidated bytes is undefined behaviour waiting for its first use)
ErrTextOk(r) == (r.k = "err" /\ r.e \in {"InvalidTopicName", "InvalidTopicFilter", "InvalidProtocol"}) => Utf8Ok(r.a[1])
OK03(e) == /\ Outcome(e.block) /\ Outcome(e.async) /\ Outcome(e.poll) /\ Outcome(e.hdr_block) /\ Outcome(e.hdr_async)
           /\ Outcome(e.poll_sched) /\ Outcome(e.async_1)
           /\ ErrTextOk(e.block) /\ ErrTextOk(e.async) /\ ErrTextOk(e.poll) /\ ErrTextOk(e.poll_sched) /\ ErrTextOk(e.async_1)
Kinds == {"ok", "incomplete", "eof", "err"}
OK03Short(e) == \A i \in 1..Len(e.rows) : \A j \in 2..6 : e.rows[i][j] \in Kinds

\* ---- frames of 4 MiB .. 2^28 bytes, complete or cut short: inputs too large to travel as JSON; the harness reports
\* the KIND of each front-end's outcome (block, async, poll, poll with a Pending before every read) and whether the
\* decoded values are equal
BigDec03(e) == \A i \in 1..4 : e.kinds[i] \in {"ok", "incomplete", "eof", "err"}
BigDec06(e) ==
    IF e.complete THEN (\A i \in 1..4 : e.kinds[i] = "ok") /\ e.same_packet /\ e.total = e.len /\ e.pos = e.len
    ELSE e.kinds = <<"incomplete", "eof", "eof", "eof">>      \* (also C07: a strict prefix of a valid encoding)

\* ---- C14
IoErr(k, en, a0, kind) == k = "err" /\ en = "IoError" /\ a0 = kind
OK14(e) ==
    ValidPacket(e.fam, e.packet) =>
        /\ e.enc.k = "ok"
        /\ \A i \in 1..Len(e.dec) :
              LET d == e.dec[i] IN
              IF d[2] = "UnexpectedEof" THEN d[4] = "err" /\ d[7]
              ELSE IoErr(d[4], d[5], d[6], d[2]) /\ ~d[7]
        /\ \A i \in 1..Len(e.encf) :
              LET d == e.encf[i]
                  target == IF d[3] = "async" THEN e.enc.bytes ELSE e.stream_ok.sink
              IN  /\ IoErr(d[4], d[5], d[6], IF d[2] = "Zero" THEN "WriteZero" ELSE d[2])
                  /\ Len(d[7]) < Len(target)
                  /\ d[7] = SubSeq(target, 1, Len(d[7]))
OK14Conv(e) ==
    IF e.dir = "io" THEN
        /\ e.as_v3.k = "err" /\ e.as_v3.e = "IoError" /\ e.as_v3.a = <<e.kind>>
        /\ e.as_v5.k = "err" /\ e.as_v5.e = "IoError" /\ e.as_v5.a = <<e.kind>>
        /\ e.back = e.kind
        /\ e.eof3 = (e.kind = "UnexpectedEof") /\ e.eof5 = e.eof3
    ELSE e.back = "InvalidData"

\* faults inside a 5 MiB packet: row = <<position, fault, who, k, error, arg, bytes in the sink, prefix? / eof?>>
BigFaultOK(e) ==
    \A i \in 1..Len(e.rows) :
        LET d == e.rows[i] IN
        IF d[3] = "enc" THEN
            /\ IoErr(d[4], d[5], d[6], IF d[2] = "Zero" THEN "WriteZero" ELSE d[2])
            /\ d[7] < e.total /\ d[8]
        ELSE IF d[2] = "Zero" THEN d[4] = "err" /\ d[8]                       \* end of the stream: recognised as EOF
        ELSE IoErr(d[4], d[5], d[6], d[2]) /\ ~d[8]

Accept(e) ==
    CASE e.ev = "Cut"   -> (Prop = "C07" => OK07(e))
      [] e.ev = "CutSpelled" -> (Prop = "C07" => OK07Spelled(e))
      [] e.ev = "Dec3"  -> (CASE Prop = "C06" -> OK06(e) [] Prop = "C03" -> OK03(e) [] OTHER -> TRUE)
      [] e.ev = "DecShort" -> (Prop = "C03" => OK03Short(e))
      [] e.ev = "BigDec" -> (CASE Prop = "C03" -> BigDec03(e) [] Prop = "C06" -> BigDec06(e) [] OTHER -> TRUE)
      [] e.ev = "Fault" -> (Prop = "C14" => OK14(e))
      [] e.ev = "Conv"  -> (Prop = "C14" => OK14Conv(e))
      [] e.ev = "BigFault" -> (Prop = "C14" => BigFaultOK(e))
      [] e.ev = "End"   -> l = Len(Rec)
      [] OTHER -> FALSE

Init == l = 1
Next == l <= Len(Rec) /\ (Accept(Rec[l]) = TRUE) /\ l' = l + 1
Spec == Init /\ [][Next]_l
=============================================================================
