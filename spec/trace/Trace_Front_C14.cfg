CONSTANT Prop = "C14"
SPECIFICATION Spec
POSTCONDITION TraceAccepted
CHECK_DEADLOCK FALSE
