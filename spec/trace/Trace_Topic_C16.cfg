CONSTANT Prop = "C16"
SPECIFICATION Spec
POSTCONDITION TraceAccepted
CHECK_DEADLOCK FALSE
