CONSTANT Prop = "C18"
SPECIFICATION Spec
POSTCONDITION TraceAccepted
CHECK_DEADLOCK FALSE
