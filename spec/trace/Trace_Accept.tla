---------------------------- MODULE Trace_Accept ----------------------------
(***************************************************************************)
(* Acceptance-side properties, validated against the operational grammar   *)
(* of Wire.tla (StrictParse = the poll decoder's view, LenientParse = the  *)
(* blocking / async decoders' view).  Prop selects the enforced property.  *)
(*                                                                         *)
(*  C04  Strict   complete frame without a non-minimal variable byte       *)
(*                integer: the poll decoder accepts iff the grammar does,  *)
(*                and returns the grammar's field values                   *)
(*  C20  Mal      a catalogue malformation (label m) of a valid packet:    *)
(*                the grammar's first error is the documented variant for  *)
(*                m, and every front-end reports exactly that error        *)
(*                (variant and carried value); an inner length past the    *)
(*                frame is a remaining-length error for the poll decoder   *)
(*                and "incomplete" for the blocking one                    *)
(*  C11  Reenc    whatever a front-end accepted re-encodes without error,  *)
(*                decodes to itself on all three, and is no longer than    *)
(*                what was consumed                                        *)
(*  C12  Decoded  every text field of a decoded packet is UTF-8; names /   *)
(*                filters pass the library's own predicate and the shared  *)
(*                accessors work; pids non-zero; var-ints < 2^28; flagged  *)
(*                payloads are UTF-8                                       *)
(*  C13  Cross    the other family's CONNECT => UnexpectedProtocol(found), *)
(*       ProtoTable  no more than name + level consumed, resuming gives    *)
(*                the native packet; other name/level pairs are invalid    *)
(***************************************************************************)
EXTENDS Wire, TraceBase

CONSTANT Prop
VARIABLE l

IsErrE(r, name) == r.k = "err" /\ r.e = name
OkPkt(r, p) == r.k = "ok" /\ r.v = p
SameErr(r, s) == r.k = "err" /\ r.e = s.e /\ r.a = s.a

\* ---- C04
CompleteFrame(b) == LET d == DecVarIntAt(b, 2) IN Len(b) >= 2 /\ d.st = "ok" /\ Len(b) = 1 + d.w + d.val
\* a non-minimal variable byte integer ends with a continuation byte followed by 0x00; frames that contain that
\* byte pair ANYWHERE are outside C04's quantifier (conservative)
MaybeNonMinimal(b) == \E i \in 1..(Len(b) - 1) : b[i] >= 128 /\ b[i + 1] = 0
\* Frames built by the harness from labelled segments (valid encodings, legal spellings, catalogue edits that keep
\* every field where it was) contain minimal var-ints by construction; for byte-level mutations and edits that
\* re-interpret the body (another type nibble, another remaining length) the conservative byte-pair test decides.
Reinterpreting == {"mutation", "hdr_type", "rl_short", "rl_long", "rl_zero", "varint5", "nonminimal-proplen"}
InQuantifier(e) == CompleteFrame(e.bytes) /\ (e.origin \in Reinterpreting => ~MaybeNonMinimal(e.bytes))
OK04(e) ==
    InQuantifier(e) =>
        LET s == StrictParse(e.fam, e.bytes) IN
        IF s.st = "ok" THEN e.poll.k = "ok" /\ e.poll.v = s.v /\ e.poll.total = Len(e.bytes)
        ELSE e.poll.k = "err"

\* the type-nibble / flag table itself: Header::new_with(control byte, remaining length) for all 256 bytes
HeaderRowOK(e) ==
    \A i \in 1..Len(e.rls) :
        LET h == ParseHeader(e.fam, <<e.hd>> \o EncVarInt(e.rls[i]))
            r == e.rows[i]
        IN  IF h.st = "ok" THEN
                /\ r.k = "ok" /\ r.v.typ = h.v.typ /\ r.v.dup = h.v.dup /\ r.v.qos = h.v.qos
                /\ r.v.retain = h.v.retain /\ r.v.remaining_len = e.rls[i]
            ELSE r.k = "err" /\ r.e = h.e /\ r.a = h.a

\* the public from_u8 constructors of the wire-numbered enums: exactly the standard's table for that type
QoSTable == << <<0, "Level0">>, <<1, "Level1">>, <<2, "Level2">> >>
PropIdTable == [i \in 1..Len(PropTable) |-> <<PropTable[i].id, PropTable[i].name>>]
TableOf(n) == CASE n = "v3.ConnectReturnCode" -> V3ConnectRC [] n = "v3.SubscribeReturnCode" -> V3SubRC
                [] n = "RetainHandling" -> RetainHandlingRC [] n = "PropertyId" -> PropIdTable [] n = "QoS" -> QoSTable
                [] OTHER -> RCTable(n)
CodeTableOK(e) == /\ Len(e.rows) = 256
                  /\ \A i \in 1..256 : e.rows[i][1] = i - 1 /\ e.rows[i][2] = Lookup(TableOf(e.enum), i - 1)

\* ---- C20
Documented(m) ==
    CASE m \in {"hdr_type", "hdr_flags"} -> {"InvalidHeader"}
      [] m \in {"pub_qos3", "will_qos3", "sub_qos"} -> {"InvalidQos"}
      [] m = "varint5" -> {"InvalidVarByteInt"}
      [] m = "pid0" -> {"ZeroPid"}
      [] m = "code" -> {"InvalidReasonCode", "InvalidConnectReturnCode", "InvalidQos"}
      [] m = "subopt" -> {"InvalidSubscriptionOption"}
      [] m \in {"conn_reserved", "conn_willqos_nowill"} -> {"InvalidConnectFlags"}
      [] m = "connack_flags" -> {"InvalidConnackFlags"}
      [] m \in {"proto_level", "proto_name"} -> {"InvalidProtocol", "UnexpectedProtocol", "InvalidString"}
      [] m = "bad_utf8" -> {"InvalidString"}
      [] m = "wild_name" -> {"InvalidTopicName"}
      [] m = "wild_resp" -> {"InvalidResponseTopic"}
      [] m = "bad_filter" -> {"InvalidTopicFilter"}
      [] m = "prop_unknown" -> {"InvalidPropertyId"}
      [] m = "prop_foreign" -> {"InvalidProperty", "InvalidWillProperty"}
      [] m = "prop_dup" -> {"DuplicatedProperty"}
      [] m = "prop_bool" -> {"InvalidByteProperty"}
      [] m = "prop_len-1" -> {"InvalidPropertyLength"}
      [] m = "empty_subs" -> {"EmptySubscription"}
      [] m = "payload_fmt" -> {"InvalidPayloadFormat"}
LenientMatches(e, q) ==
    CASE q.st = "err"  -> SameErr(e.block, q) /\ SameErr(e.async, q) /\ SameErr(e.async_1, q)
      [] q.st = "need" -> e.block.k = "incomplete" /\ e.async.k = "err" /\ e.async.eof /\ e.async_1.k = "err" /\ e.async_1.eof
      [] q.st = "ok"   -> TRUE                              \* lenient framing ignores it: not C20's business
OK20(e) ==
    LET s == StrictParse(e.fam, e.bytes)
        q == LenientParse(e.fam, e.bytes)
    IN  s.st = "err" =>
            \* a wrong remaining length re-frames the packet: whichever error the shorter / longer frame has
            \* is the documented one, so only implementation = grammar is demanded for rl_short / rl_long
            \* (if the grammar's own first error is not the one the catalogue documents for m, the catalogue entry
            \* is ambiguous at this site: that is a defect of the catalogue, not of the library -- reported as a
            \* note and counted by bin/check, never as a violation; implementation = grammar is still enforced)
            /\ (e.m \in {"rl_short", "rl_long", "rl_zero"} \/ s.e \in Documented(e.m)
                   \/ PrintT(<<"AMBIGUOUS", e.m, e.site, s.e>>))
            /\ SameErr(e.poll, s)
            /\ SameErr(e.poll_1, s)                \* ... whatever the delivery: 1-byte reads, a Pending before each, future dropped
            /\ LenientMatches(e, q)

\* ---- C11
\* Known finding C11_LENIENT_OVERRUN (DESIGN.md section 0.4, D5): the lenient front-ends do not hold a self-delimiting
\* body to the declared remaining length; when the body overruns the declared frame and the true remaining length
\* needs a wider length field than the declared one, the re-encoding is longer than what was consumed by exactly
\* that difference in width (at most 3 bytes).  The class: a lenient front-end that consumed more than the frame it
\* was given declares.
LenientOverrun(e) ==
    /\ e.front \in {"block", "async", "async3"}
    /\ LET d == DecVarIntAt(e.bytes, 2) IN
       /\ d.st = "ok" /\ 1 + d.w + d.val < e.consumed
       /\ Len(e.reenc.bytes) - e.consumed = DecVarIntAt(e.reenc.bytes, 2).w - d.w
OK11(e) ==
    /\ e.reenc.k = "ok"
    \* (re-encoding through the async encoder into a socket-like sink yields the same bytes)
    /\ (Has(e, "reenc_async") => e.reenc_async.res.k = "ok" /\ e.reenc_async.same)
    /\ OkPkt(e.redec_block, e.packet) /\ OkPkt(e.redec_async, e.packet) /\ OkPkt(e.redec_poll, e.packet)
    /\ \/ Len(e.reenc.bytes) <= e.consumed
       \/ (LenientOverrun(e) /\ AcceptedAsKnown("C11_LENIENT_OVERRUN", e))

\* ---- packets too large to travel as JSON (2^21 .. 2^28 bytes), described by their shape: a QoS-0 PUBLISH with a
\* topic of topic_len bytes and a payload of payload_len bytes.  The specification computes the sizes and the header;
\* value / byte equality at that size is computed by the harness (Packet: PartialEq) and reported as booleans.
BigRl(sh) == 2 + sh.topic_len + sh.payload_len + sh.props_len
BigEncOK(e) ==
    LET rl == BigRl(e.shape) IN
    /\ e.enc.k = "ok" /\ e.enc.len = 1 + Len(EncVarInt(rl)) + rl /\ e.enc.tail_is_payload
    /\ SubSeq(e.enc.head, 1, 1 + Len(EncVarInt(rl))) = <<48 + (IF e.shape.retain THEN 1 ELSE 0)>> \o EncVarInt(rl)
BigDecOK(e, withReenc) ==
    \A i \in 1..Len(e.dec) :
        LET d == e.dec[i] IN
        /\ d.res.k = "ok" /\ d.eq
        /\ (d.front = "poll" => d.total = e.enc.len /\ d.body_ok /\ d.body_len = BigRl(e.shape) /\ d.pos = e.enc.len)
        /\ (d.front = "async" => d.pos = e.enc.len)
        /\ (withReenc => d.reenc.k = "ok" /\ d.reenc.same)

\* ---- C12
NonZeroPids(p) ==
    IF ~Has(p, "pid") THEN TRUE
    ELSE IF p.t = "Publish" THEN \A i \in 1..Len(p.pid) : p.pid[i] \in 1..65535
    ELSE p.pid \in 1..65535
VarIntsOk(p) == (Has(p, "props") /\ Has(p.props, "sid")) => \A i \in 1..Len(p.props.sid) : p.props.sid[i] \in 0..MaxVarInt
FlaggedPayloadOk(fam, p) ==
    /\ (fam = "v5" /\ p.t = "Publish" /\ p.props.pfi = <<TRUE>> => Utf8Ok(p.payload))
    /\ (fam = "v5" /\ p.t = "Connect" /\ p.will # <<>> =>
            (p.will[1].props.pfi = <<TRUE>> => Utf8Ok(p.will[1].payload)))
OK12(e) ==
    /\ Len(e.texts) = Len(e.checks)
    /\ \A i \in 1..Len(e.texts) :
          LET role == e.texts[i][1]
              c == e.checks[i]
          IN  /\ Utf8Ok(e.texts[i][2])
              /\ ~Has(c, "panic") /\ c.utf8
              /\ (role \in {"name", "filter"} => c.invalid = FALSE)
              /\ (role = "filter" => Has(c, "acc") /\ ~Has(c.acc, "panic") /\ c.acc.split_rejoins)
    /\ NonZeroPids(e.packet) /\ VarIntsOk(e.packet) /\ FlaggedPayloadOk(e.fam, e.packet)

\* ---- C13
\* end of protocol name + level in a CONNECT frame, computed by the specification from the bytes
AfterProto(b) == LET d == DecVarIntAt(b, 2)
                     nm == RBin(b, 2 + d.w)
                 IN nm.p                                 \* nm.p - 1 bytes precede the level byte; the level is byte nm.p
OK13(e) ==
    LET found == e.native_packet.protocol IN
    /\ e.after_proto = AfterProto(e.bytes)                \* (the harness resumes at this offset)
    /\ \A i \in 1..Len(e.fronts) :
        LET f == e.fronts[i] IN
        /\ IsErrE(f.res, "UnexpectedProtocol") /\ f.res.a = <<found>>
        /\ (f.front \in {"async", "async-whole"} => f.pos <= AfterProto(e.bytes))   \* consumed no more than name and level
        /\ OkPkt(f.resume, e.native_packet)
FamilyOf(pv) == IF pv = "V500" THEN "v5" ELSE "v3"
TableRow(res, fam, e) ==
    LET pr == Proto(e.name, e.level) IN
    IF pr.st = "err" THEN res.k = "err" /\ res.e = pr.e /\ res.a = pr.a
    ELSE IF FamilyOf(pr.v) # fam THEN IsErrE(res, "UnexpectedProtocol") /\ res.a = <<pr.v>>
    ELSE (e.layout = fam => res.k = "ok" /\ res.v.protocol = pr.v)
OK13Table(e) == /\ \A i \in 1..3 : TableRow(e.v3[i], "v3", e)
                /\ \A i \in 1..3 : TableRow(e.v5[i], "v5", e)

Accept(e) ==
    CASE e.ev = "Strict"  -> (Prop = "C04" => OK04(e))
      [] e.ev = "HeaderRow" -> (Prop = "C04" => HeaderRowOK(e))
      [] e.ev = "CodeTable" -> (Prop = "C04" => CodeTableOK(e))
      [] e.ev = "Mal"     -> (Prop = "C20" => OK20(e))
      [] e.ev = "Reenc"   -> (Prop = "C11" => OK11(e))
      [] e.ev = "BigShape" -> (Prop = "C11" => BigEncOK(e) /\ BigDecOK(e, TRUE))
      [] e.ev = "Decoded" -> (Prop = "C12" => OK12(e))
      [] e.ev = "Cross"   -> (Prop = "C13" => OK13(e))
      [] e.ev = "ProtoTable" -> (Prop = "C13" => OK13Table(e))
      [] e.ev = "End"     -> l = Len(Rec)
      [] OTHER -> FALSE

Init == l = 1
Next == l <= Len(Rec) /\ (Accept(Rec[l]) = TRUE) /\ l' = l + 1
Spec == Init /\ [][Next]_l
=============================================================================
