CONSTANT Prop = "C07"
SPECIFICATION Spec
POSTCONDITION TraceAccepted
CHECK_DEADLOCK FALSE
