CONSTANT Prop = "C11"
SPECIFICATION Spec
POSTCONDITION TraceAccepted
CHECK_DEADLOCK FALSE
