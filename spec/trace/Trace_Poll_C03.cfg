CONSTANT Prop = "C03"
SPECIFICATION Spec
POSTCONDITION TraceAccepted
CHECK_DEADLOCK FALSE
