------------------------------ MODULE Trace_Api ------------------------------
(***************************************************************************)
(* Beyond the listed properties (not claimed in MANIFEST.json): the rest   *)
(* of the public surface, recorded from the real code and validated        *)
(* against Api.tla.                                                        *)
(***************************************************************************)
EXTENDS Api, TraceBase

VARIABLE l

CtorOK(e) ==
    CASE e.name = "Connect::new" -> e.packet = NewConnect(e.fam, e.args.id, e.args.ka)
      [] e.name = "LastWill::new" -> e.packet = NewWill(e.fam, e.args.qos, e.args.topic, e.args.msg)
      [] e.name = "Publish::new" -> e.packet = NewPublish(e.fam, e.args.qos, e.args.pid, e.args.topic, e.args.payload)
      [] e.name = "Connack::new" -> e.packet = NewConnack(e.fam, e.args.sp, e.args.code)
      [] e.name = "Ack::new" -> e.packet = NewAck(e.args.typ, e.args.pid, e.args.code)
      [] e.name = "Ack::new_success" -> e.packet = NewAck(e.args.typ, e.args.pid, "Success")
      [] e.name = "Coded::new" -> e.packet = NewCoded(e.args.typ, e.args.code)
      [] e.name = "Disconnect::new_normal" -> e.packet = NewCoded("Disconnect", "NormalDisconnect")
      [] e.name = "Auth::new_success" -> e.packet = NewCoded("Auth", "Success")
      [] e.name = "SubscriptionOptions::new" -> e.packet = NewSubOptions(e.args.qos)
      [] e.name = "Pid::default" -> e.packet = DefaultPid
      [] e.name = "Listed::new" -> e.packet.props = EmptyProps(e.packet.t) /\ e.packet.pid = e.args.pid

Accept(e) ==
    CASE e.ev = "Ctor" -> CtorOK(e)
      [] e.ev = "GetType" -> e.typ = TypeOf(e.packet)
      [] e.ev = "QosToSubRC" -> e.rc = QosToSubRC(e.qos)
      [] e.ev = "QosPid" -> e.qos_out = e.qos /\ e.pid_out = e.pid
      [] e.ev = "ProtocolFacts" -> /\ e.display = ProtocolDisplay(e.pv)
                                   /\ e.encode_len = ProtocolEncodeLen(e.pv)
                                   /\ e.pair_name = ProtoPair(e.pv)[1] /\ e.pair_level = ProtoPair(e.pv)[2]
                                   /\ e.bytes = Field(ProtoPair(e.pv)[1]) \o <<ProtoPair(e.pv)[2]>>
      [] e.ev = "DisplayIsDebug" -> e.display = e.debug
      [] e.ev = "HeaderNew" -> e.out = e.in
      [] e.ev = "End" -> l = Len(Rec)
      [] OTHER -> FALSE

Init == l = 1
Next == l <= Len(Rec) /\ (Accept(Rec[l]) = TRUE) /\ l' = l + 1
Spec == Init /\ [][Next]_l
=============================================================================
