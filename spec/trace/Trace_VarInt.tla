---------------------------- MODULE Trace_VarInt ----------------------------
(***************************************************************************)
(* C15: events recorded from the real helpers / writer / readers are       *)
(* validated against VarInt.tla.                                           *)
(*                                                                         *)
(*  HelperRuns   lossless run tables of the four public helpers over the   *)
(*               WHOLE domain 0..2^28-1 (+ first invalid values).  A run   *)
(*               [a,b] -> v says the implementation returned v on every    *)
(*               point of [a,b]; it is accepted iff the spec gives v at    *)
(*               both ends, runs tile [lo,hi] and neighbours differ.  The  *)
(*               spec functions are monotone (Ap_VarInt: InvMonotone,      *)
(*               InvLengths, proved over the whole domain), so equal ends  *)
(*               imply equality on the whole run.                          *)
(*  VarInt       one value through every helper, the writer and the three  *)
(*               readers.                                                  *)
(*  VarIntPat    one continuation-bit pattern through the readers.         *)
(*  WriterTable  (thorough) the writer's byte table by (position, digit,   *)
(*               continuation) over all 2^28 values, and the readers'      *)
(*               agreement counters.                                       *)
(***************************************************************************)
EXTENDS VarInt, TraceBase

VARIABLE l

ERR == 0 - 1000000001

\* ---- run tables
Tiles(runs, lo, hi) ==
    /\ Len(runs) >= 1
    /\ runs[1][1] = lo /\ runs[Len(runs)][2] = hi
    /\ \A i \in 1..Len(runs) : runs[i][1] <= runs[i][2]
    /\ \A i \in 1..(Len(runs) - 1) : runs[i + 1][1] = runs[i][2] + 1 /\ runs[i + 1][3] # runs[i][3]

SpecHelper(fn, n) ==
    CASE fn = "var_int_len"       -> IF n <= MaxVarInt THEN VarIntLen(n) ELSE ERR
      [] fn = "total_len_minus_n" -> IF n <= MaxVarInt THEN TotalLen(n) - n ELSE ERR
      [] fn = "header_len_of_total" -> HeaderLen(TotalLen(n))
      [] fn = "remaining_len_of_total_minus_n" -> RemainingLen(TotalLen(n)) - n

HelperRunsOK(e) ==
    /\ e.fn \in {"var_int_len", "total_len_minus_n", "header_len_of_total", "remaining_len_of_total_minus_n"}
    /\ e.lo = 0
    /\ e.hi >= MaxVarInt
    /\ (e.fn \in {"var_int_len", "total_len_minus_n"} => e.hi > MaxVarInt)     \* first invalid values included
    /\ Tiles(e.runs, e.lo, e.hi)
    /\ \A i \in 1..Len(e.runs) :
          /\ e.runs[i][3] = SpecHelper(e.fn, e.runs[i][1])
          /\ e.runs[i][3] = SpecHelper(e.fn, e.runs[i][2])

\* ---- one value
IsErr(r, name) == r.k = "err" /\ r.e = name
OkVal(r, v) == r.k = "ok" /\ r.val = v
OkValUsed(r, v, w) == r.k = "ok" /\ r.val = v /\ r.used = w

PointOK(e) ==
    LET n == e.n IN
    IF n <= MaxVarInt THEN
        LET enc == EncVarInt(n)
            L == Len(enc)
        IN  /\ OkVal(e.vlen, VarIntLen(n))
            /\ OkVal(e.tlen, TotalLen(n))
            /\ e.hlen = HeaderLen(TotalLen(n))
            /\ e.rlen = n
            /\ e.props_bytes = <<1 + L, 11>> \o enc            \* writer: minimal form, size as reported
            /\ L = VarIntLen(n) /\ Minimal(enc)
            /\ OkValUsed(e.raw, n, L)                           \* standalone reader inverts it, reports bytes consumed
            /\ OkValUsed(e.probe, n, L)                         \* poll header state machine, one byte per read
            /\ OkValUsed(e.probe_all, n, L)                     \* ... and everything in one read
            /\ OkVal(e.props, n)                                \* property var-int reader
            /\ IF n = 0 THEN IsErr(e.poll3.res, "InvalidRemainingLength")
               ELSE e.poll3.res.k = "err" /\ e.poll3.res.eof    \* header read completely, body missing
    ELSE
        /\ IsErr(e.vlen, "InvalidVarByteInt")
        /\ IsErr(e.tlen, "InvalidVarByteInt")
        /\ IsErr(e.vbi, "InvalidVarByteInt")

\* ---- one continuation pattern: readers = DecVarIntAt
PatReader(r, d) ==
    CASE d.st = "ok"   -> OkValUsed(r, d.val, d.w)
      [] d.st = "err"  -> IsErr(r, "InvalidVarByteInt")
      [] d.st = "need" -> r.k = "err" /\ r.eof
PatReal(r, d) ==
    CASE d.st = "err"  -> IsErr(r, "InvalidVarByteInt")
      [] d.st = "need" -> r.k = "err" /\ r.eof
      [] OTHER -> r.k \in {"ok", "err"}                         \* what a complete header means is C04's business
PatOK(e) ==
    LET d == DecVarIntAt(e.bytes, 1) IN
    /\ PatReader(e.raw, d) /\ PatReader(e.probe, d) /\ PatReader(e.probe_all, d)
    /\ PatReal(e.v3, d) /\ PatReal(e.v5, d)

\* ---- writer table over the whole domain
ExpectedKeys == {<<k, d, 1>> : k \in 0..2, d \in 0..127}
                \cup {<<0, d, 0>> : d \in 0..127}
                \cup {<<k, d, 0>> : k \in 1..3, d \in 1..127}
WriterTableOK(e) ==
    /\ e.lo = 0 /\ e.hi = MaxVarInt
    /\ e.mismatches = <<>>
    /\ {<<x[1], x[2], x[3]>> : x \in {e.entries[i] : i \in 1..Len(e.entries)}} = ExpectedKeys
    /\ \A i \in 1..Len(e.entries) : e.entries[i][4] = e.entries[i][2] + 128 * e.entries[i][3]
    /\ Tiles(e.len_runs, 0, MaxVarInt)
    /\ \A i \in 1..Len(e.len_runs) :
          /\ e.len_runs[i][3] = VarIntLen(e.len_runs[i][1])
          /\ e.len_runs[i][3] = VarIntLen(e.len_runs[i][2])

\* a value n = hi2 * 2^59 + hi * 2^28 + lo that does not fit TLC's integers: n > MaxVarInt iff hi + hi2 > 0
HugeOK(e) == (e.hi > 0 \/ e.hi2 > 0) => IsErr(e.vlen, "InvalidVarByteInt") /\ IsErr(e.tlen, "InvalidVarByteInt")

Accept(e) ==
    CASE e.ev = "HelperRuns"  -> HelperRunsOK(e)
      [] e.ev = "VarIntHuge"  -> HugeOK(e)
      [] e.ev = "VarInt"      -> PointOK(e)
      [] e.ev = "VarIntPat"   -> PatOK(e)
      [] e.ev = "WriterTable" -> WriterTableOK(e)
      [] e.ev = "End"         -> l = Len(Rec)
      [] OTHER -> FALSE

Init == l = 1
Next == l <= Len(Rec) /\ (Accept(Rec[l]) = TRUE) /\ l' = l + 1
Spec == Init /\ [][Next]_l
=============================================================================
