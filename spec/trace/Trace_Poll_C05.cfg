CONSTANT Prop = "C05"
SPECIFICATION Spec
POSTCONDITION TraceAccepted
CHECK_DEADLOCK FALSE
