CONSTANT W = 16
SPECIFICATION Spec
POSTCONDITION TraceAccepted
CHECK_DEADLOCK FALSE
