CONSTANT Prop = "C20"
SPECIFICATION Spec
POSTCONDITION TraceAccepted
CHECK_DEADLOCK FALSE
