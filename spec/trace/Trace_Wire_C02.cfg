CONSTANT Prop = "C02"
SPECIFICATION Spec
POSTCONDITION TraceAccepted
CHECK_DEADLOCK FALSE
