CONSTANT Prop = "C01"
SPECIFICATION Spec
POSTCONDITION TraceAccepted
CHECK_DEADLOCK FALSE
