SPECIFICATION Spec
POSTCONDITION TraceAccepted
CHECK_DEADLOCK FALSE
