------------------------------ MODULE TraceBase ------------------------------
(***************************************************************************)
(* Common machinery of every trace specification: the recorded events      *)
(* (ndjson, one JSON object per line, read from the file named by the      *)
(* TRACE environment variable), and acceptance by POSTCONDITION: the       *)
(* trace is accepted iff every line was matched by a step of the trace     *)
(* spec, i.e. the diameter of the explored graph is Len(Rec) + 1.  On      *)
(* rejection the first unmatched event is printed.                         *)
(***************************************************************************)
EXTENDS Json, IOUtils, TLC, Sequences, Naturals

Rec == ndJsonDeserialize(IOEnv.TRACE)

Has(r, f) == f \in DOMAIN r

TraceAccepted ==
    LET d == TLCGet("stats").diameter IN
    IF d - 1 = Len(Rec) THEN TRUE
    ELSE /\ PrintT(<<"UNMATCHED", d, IF d <= Len(Rec) THEN ToJson(Rec[d]) ELSE "past the end">>)
         /\ FALSE
=============================================================================
