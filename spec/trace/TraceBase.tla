------------------------------ MODULE TraceBase ------------------------------
(***************************************************************************)
(* Common machinery of every trace specification: the recorded events      *)
(* (ndjson, one JSON object per line, read from the file named by the      *)
(* TRACE environment variable), and acceptance by POSTCONDITION: the       *)
(* trace is accepted iff every line was matched by a step of the trace     *)
(* spec, i.e. the diameter of the explored graph is Len(Rec) + 1.  On      *)
(* rejection the first unmatched event is printed.                         *)
(***************************************************************************)
EXTENDS Json, IOUtils, TLC, Sequences, Naturals

Rec == ndJsonDeserialize(IOEnv.TRACE)

Has(r, f) == f \in DOMAIN r

\* A genuine defect that is recorded rather than repaired (/verif/known_findings.txt, `finding: ... class=<NAME>`):
\* bin/check exports KNOWN_<NAME>=1 for every such line of the property it runs.  A trace spec may then accept the
\* ONE clause the finding is about, for events of exactly the recorded class, announcing each use; every other
\* clause stays enforced on those events, and removing the line from the file turns the finding back into a
\* violation.  (The file is read by bin/check only; nothing is ever written to it at run time.)
KnownFinding(name) == LET n == "KNOWN_" \o name IN n \in DOMAIN IOEnv /\ IOEnv[n] = "1"
AcceptedAsKnown(name, e) == KnownFinding(name) /\ PrintT(<<"KNOWN-FINDING-HIT", name>>)

TraceAccepted ==
    LET d == TLCGet("stats").diameter IN
    IF d - 1 = Len(Rec) THEN TRUE
    ELSE /\ PrintT(<<"UNMATCHED", d, IF d <= Len(Rec) THEN ToJson(Rec[d]) ELSE "past the end">>)
         /\ FALSE
=============================================================================
