---------------------------- MODULE Trace_Async ----------------------------
(***************************************************************************)
(* Beyond the listed properties: the async (and blocking) decoder against  *)
(* AsyncAbs -- it consumes the stream exactly up to the DECISION POINT of  *)
(* Wire.tla's operational parser and returns the parse of that prefix.     *)
(* This binds the ORDER of reads and checks of the specification's parser  *)
(* to the code on malformed input too (C07 / C08 / C13 bind it on valid    *)
(* packets only): for a run that consumed p bytes,                         *)
(*     LenientParse(prefix p) is decided and is what was returned,         *)
(*     LenientParse(prefix p - 1) is "need" (not decided any earlier),     *)
(*     an accepted packet used exactly p bytes;                            *)
(* a run that hit the end of input consumed everything and the whole       *)
(* input is undecided.  The two parses per run replace the search for the  *)
(* decision point (AsyncAbs!Decision), given AsyncAbs!DecisionStable.      *)
(* Events: the Dec3 events of the C06 driver (whole-buffer and 1-byte      *)
(* deliveries of corrupted / catalogue / random inputs).                   *)
(***************************************************************************)
EXTENDS Wire, TraceBase

VARIABLE l

Pre(s, n) == SubSeq(s, 1, n)
SameRes(r, q) == /\ (q.st = "ok" => r.k = "ok" /\ r.v = q.v)
                 /\ (q.st = "err" => r.k = "err" /\ r.e = q.e /\ r.a = q.a)
AsyncOK(fam, b, r) ==
    IF r.k = "err" /\ r.eof THEN r.pos = Len(b) /\ LenientParse(fam, b).st = "need"
    ELSE LET p == r.pos
             q == LenientParse(fam, Pre(b, p))
         IN  /\ p <= Len(b)
             /\ q.st # "need" /\ SameRes(r, q)
             /\ (q.st = "ok" => q.used = p)
             /\ (p > 0 => LenientParse(fam, Pre(b, p - 1)).st = "need")
BlockOK(fam, b, r) ==
    LET q == LenientParse(fam, b) IN
    IF q.st = "need" THEN r.k = "incomplete" ELSE SameRes(r, q)

Accept(e) ==
    CASE e.ev = "Dec3" -> AsyncOK(e.fam, e.bytes, e.async) /\ AsyncOK(e.fam, e.bytes, e.async_1) /\ BlockOK(e.fam, e.bytes, e.block)
      [] e.ev = "BigDec" -> TRUE                       \* (kinds only: judged under C03 / C06)
      [] e.ev = "End"  -> l = Len(Rec)
      [] OTHER -> FALSE

Init == l = 1
Next == l <= Len(Rec) /\ (Accept(Rec[l]) = TRUE) /\ l' = l + 1
Spec == Init /\ [][Next]_l
=============================================================================
