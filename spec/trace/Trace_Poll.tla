----------------------------- MODULE Trace_Poll -----------------------------
(***************************************************************************)
(* Trace validation of the poll decoder against the statement-level model  *)
(* PollAbs: the only state is how much of the stream the transport has     *)
(* delivered (pos) and the transport's last answer in the current poll     *)
(* (last).  The decoder's internal representation (var_idx, idx, buf ...)  *)
(* is NOT bound: any implementation with the stated behaviour is accepted. *)
(*                                                                         *)
(* A run:  Reset (stream, and the result of ONE uninterrupted read of the  *)
(* same stream by the same decoder), then Read / PollRet / Drop events as  *)
(* they happened at the transport boundary, then RunEnd.                   *)
(*                                                                         *)
(*  C05  - every Read stays inside the current frame:                      *)
(*         pos + cap <= MinFrameEnd(bytes delivered so far)                *)
(*       - PollRet(pending) only directly after the transport answered     *)
(*         Pending                                                         *)
(*       - the final output equals the one-shot output (packet, total,     *)
(*         body / error variant and argument), whatever the chunking,      *)
(*         Pendings and drop/re-create points were                         *)
(*       - on success, bytes consumed = total reported                     *)
(*  C03  - (buffer discipline) body reads offer a slice of the body buffer, *)
(*         never past its end (how the header is buffered is free); when   *)
(*         the                                                             *)
(*         body is handed out, the transport has written all of it         *)
(*       - the body handed out is the stream's bytes (nothing that the     *)
(*         transport did not write is exposed)                             *)
(*       - no spinning: the run ends within the poll bound, and every poll *)
(*         either saw a Pending transport or made a transport call         *)
(*         (polls <= Pendings + reads + 1)                                 *)
(*                                                                         *)
(* Environment (harness): every other run the transport fills the buffer   *)
(* initialize_unfilled / advance style; on every third run another         *)
(* connection is decoded on the same thread at each Pending (no event: for *)
(* this decoder it is a stuttering step - its state is the caller-held one *)
(* and nothing else).  Runs whose Reset carries "big" describe frames of   *)
(* 4 KiB .. 12 MiB: bytes = the first bytes only (all that MinFrameEnd     *)
(* reads), packet and body are digests computed by the harness.            *)
(***************************************************************************)
EXTENDS Wire, TraceBase

CONSTANT Prop
VARIABLES l, pos, last, r, cov, maxend, open      \* r = line of the current run's Reset event
vars == <<l, pos, last, r, cov, maxend, open>>
bytes == Rec[r].bytes
expect == Rec[r].oneshot
Min2(a, b) == IF a < b THEN a ELSE b

\* the earliest possible end of the frame, given the bytes delivered so far: a decoder may never ask
\* the transport for bytes beyond it
\* (n = number of bytes delivered; only the first five can belong to the fixed header)
MinFrameEnd(n) ==
    IF n < 2 THEN 2
    ELSE LET v == DecVarIntAt(SubSeq(bytes, 1, Min2(n, 5)), 2) IN
         CASE v.st = "ok"   -> 1 + v.w + v.val
           [] v.st = "need" -> n + 1
           [] v.st = "err"  -> n                       \* over-long length: nothing more may be read

SameOut(a, b) ==
    /\ a.k = b.k
    /\ (a.k = "ok" => a.v = b.v /\ a.total = b.total /\ a.body = b.body)
    /\ (a.k = "err" => a.e = b.e /\ a.a = b.a)

Reset(e) ==
    /\ ~open
    /\ pos' = 0 /\ last' = "none" /\ r' = l /\ cov' = 0 /\ maxend' = 0
    /\ open' = TRUE

Read(e) ==
    /\ open
    /\ e.pos = pos /\ e.n <= e.cap
    /\ (Prop = "C05" => pos + e.cap <= MinFrameEnd(pos))
    /\ pos' = pos + e.n
    /\ last' = e.ans
    /\ cov' = IF e.off >= 0 /\ e.off <= cov /\ e.off + e.n > cov THEN e.off + e.n ELSE cov
    /\ maxend' = IF e.off >= 0 /\ e.off + e.cap > maxend THEN e.off + e.cap ELSE maxend
    /\ UNCHANGED <<r, open>>

PollRet(e) ==
    /\ open
    /\ IF e.ret = "pending" THEN
            /\ (Prop = "C05" => last = "pending")
            /\ last' = "returned"
            /\ UNCHANGED <<pos, r, cov, maxend, open>>
       ELSE
            /\ (Prop = "C05" =>
                    /\ SameOut(e.out, expect)
                    /\ (e.out.k = "ok" => pos = e.out.total))
            /\ (Prop = "C03" /\ Has(Rec[r], "big") => e.out.k \in {"ok", "err"})   \* (big frames travel as digests)
            /\ (Prop = "C03" /\ ~Has(Rec[r], "big") =>
                    /\ e.out.k \in {"ok", "err"}
                    /\ maxend <= e.buflen
                    \* reads that landed inside the buffer that is handed out must have covered all of it
                    \* (an implementation that stages reads elsewhere and copies is not constrained here) ...
                    /\ (e.out.k = "ok" => e.buflen = Len(e.out.body) /\ (maxend > 0 => cov = Len(e.out.body)))
                    \* ... and in every case the body handed out is exactly the frame's body bytes of the stream
                    /\ (e.out.k = "ok" => /\ e.out.total <= Len(bytes) /\ Len(e.out.body) <= e.out.total
                                          /\ e.out.body = SubSeq(bytes, e.out.total - Len(e.out.body) + 1, e.out.total)))
            /\ last' = "done"
            /\ UNCHANGED <<pos, r, cov, maxend, open>>

Drop(e) == open /\ last = "returned" /\ last' = "none" /\ UNCHANGED <<pos, r, cov, maxend, open>>

RunEnd(e) ==
    /\ open /\ last = "done"
    /\ (Prop = "C03" => e.polls <= e.pendings + e.reads + 1)
    /\ open' = FALSE
    /\ UNCHANGED <<pos, last, r, cov, maxend>>

Step(e) ==
    CASE e.ev = "Reset"   -> Reset(e)
      [] e.ev = "Read"    -> Read(e)
      [] e.ev = "PollRet" -> PollRet(e)
      [] e.ev = "Drop"    -> Drop(e)
      [] e.ev = "RunEnd"  -> RunEnd(e)
      [] e.ev = "End"     -> l = Len(Rec) /\ ~open /\ UNCHANGED <<pos, last, r, cov, maxend, open>>
      [] OTHER -> FALSE

Init == l = 1 /\ pos = 0 /\ last = "none" /\ r = 1 /\ cov = 0 /\ maxend = 0 /\ open = FALSE
Next == l <= Len(Rec) /\ Step(Rec[l]) /\ l' = l + 1
Spec == Init /\ [][Next]_vars
=============================================================================
