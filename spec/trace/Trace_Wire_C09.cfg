CONSTANT Prop = "C09"
SPECIFICATION Spec
POSTCONDITION TraceAccepted
CHECK_DEADLOCK FALSE
