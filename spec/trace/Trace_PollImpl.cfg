CONSTANT Fam <- TraceFam
CONSTANT Streams <- NoStreams
CONSTANT Kinds <- TraceKinds
SPECIFICATION TSpec
INVARIANT TypeOK PendingOnlyIfTransportDid AsksWithinFrame BufferDiscipline HeaderStateIsPrefix
INVARIANT TScheduleIndependent TEofMeansTruncated TFailKeepsKind TConsumedIsReported TNoUninitExposed TLenientAgrees
POSTCONDITION TraceAccepted
CHECK_DEADLOCK FALSE
