----------------------------- MODULE Trace_Wire -----------------------------
(***************************************************************************)
(* Events recorded from the real encoder / decoders on seeded rich packets *)
(* (and on byte strings), validated against Wire.tla.  The constant Prop   *)
(* selects which property's conjuncts are enforced, so that a rejected     *)
(* event is attributed to the property that states the violated clause:    *)
(*                                                                         *)
(*  C01  RoundTrip  valid packet => encoding succeeds; blocking, async and *)
(*                  poll decoders return the packet; poll total = size,    *)
(*                  poll body = raw body bytes.  (Equations between        *)
(*                  observations; ValidPacket decides applicability.)      *)
(*  C02  Lens / LensShape  emitted = encode_len; header's remaining length *)
(*                  = bytes that follow, minimally encoded; every part     *)
(*                  writes what it reports; too large => refused.          *)
(*  C09  Enc        blocking = repeated = cloned = async under every sink  *)
(*                  script; packet = fixed header + streamed body.         *)
(*  C10  Enc        the emitted bytes parse, by this specification's       *)
(*                  independent grammar, to exactly the original packet.   *)
(***************************************************************************)
EXTENDS Wire, TraceBase

CONSTANT Prop
VARIABLE l

IsErrE(r, name) == r.k = "err" /\ r.e = name
OkPkt(r, p) == r.k = "ok" /\ r.v = p
HdrW(b) == 1 + DecVarIntAt(b, 2).w

\* ---- C01
OK01(e) ==
    ValidPacket(e.fam, e.packet) =>
        /\ e.enc.k = "ok"
        /\ LET b == e.enc.bytes IN
           /\ OkPkt(e.dec_block, e.packet)
           /\ OkPkt(e.dec_async, e.packet)
           /\ OkPkt(e.dec_poll, e.packet)
           /\ e.dec_poll.total = Len(b)
           /\ e.dec_poll.body = SubSeq(b, HdrW(b) + 1, Len(b))
           \* the async encoder (socket-like sink: vectored writes, a short first write) produced bytes that decode
           \* to the packet as well
           /\ (Has(e, "dec_of_async_enc") => OkPkt(e.dec_of_async_enc, e.packet))

\* ---- C02
PartsOK(e) == \A i \in 1..Len(e.parts) : e.parts[i].written = e.parts[i].reported /\ e.parts[i].err = ""
HeaderOK(enc) ==
    LET d == DecVarIntAt(enc.hdr, 2) IN
    /\ d.st = "ok"
    /\ d.val = enc.len - 1 - d.w                    \* remaining length = bytes that follow the fixed header
    /\ d.w = VarIntLen(d.val)                       \* minimal width
LensOK(e, bodylen, valid) ==
    valid =>
        IF bodylen <= MaxVarInt THEN
            /\ e.enc.k = "ok"
            /\ e.encode_len.k = "ok" /\ e.encode_len.val = e.enc.len
            /\ HeaderOK(e.enc)
            /\ (Has(e, "enc_async") => e.enc_async.k = "ok" /\ e.enc_async.len = e.enc.len)
            /\ PartsOK(e)
        ELSE
            /\ IsErrE(e.enc, "InvalidVarByteInt")       \* refused, nothing emitted
            /\ IsErrE(e.encode_len, "InvalidVarByteInt")
OK02(e) == LensOK(e, Len(EncodeBody(e.fam, e.packet)), ValidBody(e.fam, e.packet))
ShapeBodyLen(s) == 2 + s.topic_len + (IF s.qos > 0 THEN 2 ELSE 0) + (IF Has(s, "props_len") THEN s.props_len ELSE 0)
                   + s.payload_len
OK02Shape(e) == /\ LensOK(e, ShapeBodyLen(e.shape), TRUE)
                /\ (e.enc.k = "ok" => e.enc.tail_is_payload /\ e.enc.len = TotalLen(ShapeBodyLen(e.shape)))

\* ---- packets too large to travel as JSON (2^21 .. 2^28 bytes), described by their shape: a QoS-0 PUBLISH with a
\* topic of topic_len bytes and a payload of payload_len bytes.  The specification computes the sizes and the header;
\* value / byte equality at that size is computed by the harness (Packet: PartialEq) and reported as booleans.
BigRl(sh) == 2 + sh.topic_len + sh.payload_len + sh.props_len
BigEncOK(e) ==
    LET rl == BigRl(e.shape) IN
    /\ e.enc.k = "ok" /\ e.enc.len = 1 + Len(EncVarInt(rl)) + rl /\ e.enc.tail_is_payload
    /\ SubSeq(e.enc.head, 1, 1 + Len(EncVarInt(rl))) = <<48 + (IF e.shape.retain THEN 1 ELSE 0)>> \o EncVarInt(rl)
BigDecOK(e, withReenc) ==
    \A i \in 1..Len(e.dec) :
        LET d == e.dec[i] IN
        /\ d.res.k = "ok" /\ d.eq
        /\ (d.front = "poll" => d.total = e.enc.len /\ d.body_ok /\ d.body_len = BigRl(e.shape) /\ d.pos = e.enc.len)
        /\ (d.front = "async" => d.pos = e.enc.len)
        /\ (withReenc => d.reenc.k = "ok" /\ d.reenc.same)

\* ---- C09
StreamOK(b, s) ==
    s.k = "body" => /\ s.res.k = "ok"
                    /\ b = <<b[1]>> \o EncVarInt(Len(s.sink)) \o s.sink
OK09(e) ==
    ValidPacket(e.fam, e.packet) =>
        /\ e.sync.k = "ok"
        /\ e.again = e.sync /\ e.cloned = e.sync
        /\ e.container = e.sync.bytes                 \* as_ref() exposes exactly the container's bytes
        /\ \A i \in 1..Len(e.async) : e.async[i].res.k = "ok" /\ e.async[i].sink = e.sync.bytes
        /\ StreamOK(e.sync.bytes, e.stream) /\ StreamOK(e.sync.bytes, e.stream1)

\* two encodings in flight on one thread (the first suspended by a not-ready sink while the second runs): each sink
\* receives exactly its own packet
OK09Interleave(e) ==
    (ValidPacket(e.fam, e.pa) /\ ValidPacket(e.fam, e.pb)) =>
        /\ e.sync_a.k = "ok" /\ e.sync_b.k = "ok"
        /\ e.run.a.res.k = "ok" /\ e.run.a.sink = e.sync_a.bytes
        /\ e.run.b.res.k = "ok" /\ e.run.b.sink = e.sync_b.bytes

\* ---- C10
OK10(e) ==
    ValidPacket(e.fam, e.packet) =>
        /\ e.sync.k = "ok"
        /\ LET b == e.sync.bytes
               r == StrictParse(e.fam, b)
               q == LenientParse(e.fam, b)
           IN  /\ r.st = "ok" /\ r.v = e.packet /\ r.used = Len(b)
               /\ q.st = "ok" /\ q.v = e.packet /\ q.used = Len(b)
               /\ Minimal(SubSeq(b, 2, HdrW(b)))
               \* what reaches a peer is what the async encoder hands to the socket: the same conformant bytes under
               \* every sink behaviour (vectored writes, short first write, not-ready answers)
               /\ \A i \in 1..Len(e.async) : e.async[i].res.k = "ok" /\ e.async[i].sink = b
               /\ b[1] = ControlByte(e.packet)

\* C10: every enum variant that is written as a wire number and every property, in every packet type that may
\* carry it, went through the encoder (and was therefore validated above) at least once in this run
CodeTypes == {"Connack", "Puback", "Pubrec", "Pubrel", "Pubcomp", "Suback", "Unsuback", "Disconnect", "Auth"}
PropSets == {"Connect", "Will", "Connack", "Publish", "Puback", "Pubrec", "Pubrel", "Pubcomp", "Subscribe", "Suback",
             "Unsubscribe", "Unsuback", "Disconnect", "Auth"}
CoverageOK(e) ==
    LET codes == {e.codes[i] : i \in 1..Len(e.codes)}
        props == {e.props[i] : i \in 1..Len(e.props)}
    IN  /\ \A t \in CodeTypes : \A n \in Names(RCTable(t)) : <<"v5", t, n>> \in codes
        /\ \A n \in Names(V3ConnectRC) : <<"v3", "Connack", n>> \in codes
        /\ \A n \in Names(V3SubRC) : <<"v3", "Suback", n>> \in codes
        /\ \A n \in Names(RetainHandlingRC) : <<"v5", "RetainHandling", n>> \in codes
        /\ <<"v3", "Protocol", "V310">> \in codes /\ <<"v3", "Protocol", "V311">> \in codes
        /\ <<"v5", "Protocol", "V500">> \in codes
        /\ \A s \in PropSets : \A k \in PropKeys(s) \cup {"user"} : <<s, k>> \in props

\* ---- every packet size (SizeSweep): a QoS-0 PUBLISH with topic "t" and remaining length e.rl
SweepCtl(e) == 48 + (IF e.dup THEN 8 ELSE 0) + (IF e.retain THEN 1 ELSE 0)
SweepOK(e) ==
    /\ e.enc.k = "ok"
    /\ CASE Prop = "C01" -> \A i \in 1..Len(e.dec) : e.dec[i].ok /\ e.dec[i].total = e.enc.len
         [] Prop = "C02" -> /\ e.encode_len.k = "ok" /\ e.encode_len.val = e.enc.len
                            /\ e.enc.len = 1 + VarIntLen(e.rl) + e.rl
                            /\ HeaderOK(e.enc)
         [] Prop = "C09" -> \A i \in 1..Len(e.async) : e.async[i].k = "ok" /\ e.async[i].same
         [] Prop = "C10" -> /\ SubSeq(e.enc.hdr, 1, 1 + VarIntLen(e.rl)) = <<SweepCtl(e)>> \o EncVarInt(e.rl)
                            /\ \A i \in 1..Len(e.async) : e.async[i].k = "ok" /\ e.async[i].same
         [] OTHER -> TRUE

Accept(e) ==
    CASE e.ev = "RoundTrip" -> (Prop = "C01" => OK01(e))
      [] e.ev = "SizeSweep" -> SweepOK(e)
      [] e.ev = "Lens"      -> (Prop = "C02" => OK02(e))
      [] e.ev = "LensShape" -> (Prop = "C02" => OK02Shape(e))
      [] e.ev = "BigShape"  -> (CASE Prop = "C01" -> BigEncOK(e) /\ BigDecOK(e, FALSE)
                                  [] Prop = "C10" -> BigEncOK(e)             \* the header an independent reader sees
                                  [] Prop = "C09" -> e.enc.k = "ok"
                                  [] OTHER -> TRUE)
      [] e.ev = "LensHuge"  -> (Prop = "C02" => (e.body_hi > 0 => IsErrE(e.encode_len, "InvalidVarByteInt")))
      [] e.ev = "Enc"       -> (CASE Prop = "C09" -> OK09(e) [] Prop = "C10" -> OK10(e) [] OTHER -> TRUE)
      [] e.ev = "Interleave" -> (Prop = "C09" => OK09Interleave(e))
      [] e.ev = "Coverage"  -> (Prop = "C10" => CoverageOK(e))
      [] e.ev = "End"       -> l = Len(Rec)
      [] OTHER -> FALSE

Init == l = 1
Next == l <= Len(Rec) /\ (Accept(Rec[l]) = TRUE) /\ l' = l + 1
Spec == Init /\ [][Next]_l
=============================================================================
