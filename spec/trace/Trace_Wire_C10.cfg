CONSTANT Prop = "C10"
SPECIFICATION Spec
POSTCONDITION TraceAccepted
CHECK_DEADLOCK FALSE
