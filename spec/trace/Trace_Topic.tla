---------------------------- MODULE Trace_Topic ----------------------------
(***************************************************************************)
(* C16 / C17 / C18: what the real TopicFilter / TopicName code did with a  *)
(* string, validated against Topic.tla.  One module, the constant Prop     *)
(* selects which property's conjuncts are enforced (so that a rejected     *)
(* event is attributed to the property that states the violated clause).   *)
(*                                                                         *)
(*  Topic       one string: the predicate, the constructor, the accessors, *)
(*              and the decision of every packet field that carries a      *)
(*              filter (v3/v5 SUBSCRIBE, UNSUBSCRIBE) or a name (v3/v5     *)
(*              PUBLISH, will topic, v5 response topic of PUBLISH / will). *)
(*  FilterPair  ==, !=, cmp, partial_cmp and hash equality of two filters  *)
(*              (the second reached through a decoded SUBSCRIBE packet).   *)
(***************************************************************************)
EXTENDS Topic, TraceBase, Integers

CONSTANT Prop
VARIABLE l

NoPanic(r) == ~Has(r, "panic")
Opt(present, v) == IF present THEN <<v>> ELSE <<>>

\* C16: accepted as a filter exactly when MQTT says so; same decision through the constructor and in packets
OK16(e) ==
    LET ok == TopicFilterOk(e.b) IN
    /\ NoPanic(e.f)
    /\ e.f.invalid = ~ok
    /\ e.f.ctor = (IF ok THEN "ok" ELSE "InvalidTopicFilter")
    /\ Has(e, "pkt") =>
          /\ NoPanic(e.pkt)
          /\ \A k \in {"v3sub", "v3unsub", "v5sub", "v5unsub"} :
                e.pkt[k] = (IF ok THEN "ok" ELSE "InvalidTopicFilter")

\* C17: accessors return the unique split; text is preserved; non-shared filters report no share
OK17(e) ==
    TopicFilterOk(e.b) /\ NoPanic(e.f) /\ e.f.ctor = "ok" =>
        LET a == e.f.acc
            sh == IsShared(e.b)
        IN  /\ NoPanic(a)
            /\ a.shared = sh
            /\ a.group  = Opt(sh, ShareName(e.b))
            /\ a.filter = Opt(sh, ShareFilter(e.b))
            /\ a.info   = Opt(sh, <<ShareName(e.b), ShareFilter(e.b)>>)
            /\ a.text_same /\ a.deref_same
            \* ... and the same of the values the four SUBSCRIBE / UNSUBSCRIBE decoders built from this text
            /\ (Has(e, "pkt") /\ NoPanic(e.pkt) =>
                    \A k \in DOMAIN e.pkt.acc :
                        LET p == e.pkt.acc[k] IN
                        /\ NoPanic(p) /\ p.shared = sh
                        /\ p.group = Opt(sh, ShareName(e.b)) /\ p.filter = Opt(sh, ShareFilter(e.b))
                        /\ p.info = Opt(sh, <<ShareName(e.b), ShareFilter(e.b)>>)
                        /\ p.text_same /\ p.deref_same)

OK17Pair(e) ==
    /\ NoPanic(e)
    /\ e.eq = (e.a = e.b) /\ e.ne = (e.a # e.b)
    /\ e.cmp = LexCmp(e.a, e.b) /\ e.pcmp = e.cmp
    /\ (e.a = e.b => e.hash_eq)

\* C18: accepted as a name exactly when <= 65,535 bytes without '+', '#', U+0000; text and prefixes preserved
OK18(e) ==
    LET ok == TopicNameOk(e.b) IN
    /\ NoPanic(e.n)
    /\ e.n.invalid = ~ok
    /\ e.n.ctor = (IF ok THEN "ok" ELSE "InvalidTopicName")
    /\ ok => /\ e.n.acc.text_same /\ e.n.acc.deref_same
             /\ e.n.acc.shared = NameIsShared(e.b)
             /\ e.n.acc.sys = NameIsSys(e.b)
    /\ Has(e, "pkt") =>
          /\ NoPanic(e.pkt)
          /\ \A k \in {"v3pub", "v5pub", "v3will", "v5will", "v31will", "v3pub0", "v5pub0", "v5pubalias"} :
                e.pkt[k] = (IF ok THEN "ok" ELSE "InvalidTopicName")
          /\ \A k \in {"v5resp", "v5willresp"} :
                e.pkt[k] = (IF ok THEN "ok" ELSE "InvalidResponseTopic")

Accept(e) ==
    CASE e.ev = "Topic" -> (CASE Prop = "C16" -> OK16(e) [] Prop = "C17" -> OK17(e) [] Prop = "C18" -> OK18(e))
      [] e.ev = "FilterPair" -> (Prop = "C17" => OK17Pair(e))
      [] e.ev = "End" -> l = Len(Rec)
      [] OTHER -> FALSE

Init == l = 1
Next == l <= Len(Rec) /\ (Accept(Rec[l]) = TRUE) /\ l' = l + 1
Spec == Init /\ [][Next]_l
=============================================================================
