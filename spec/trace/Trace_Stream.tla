---------------------------- MODULE Trace_Stream ----------------------------
(***************************************************************************)
(* C08: a finite sequence of packets ps, encoded back to back into one     *)
(* stream, is decoded one packet at a time by one front-end (poll over a   *)
(* randomly chunking transport, async over a cursor, blocking over the     *)
(* remaining slice advanced by the encoded length).  State: index of the   *)
(* next packet and position in the stream.                                 *)
(*                                                                         *)
(*   StreamPkt  the i-th result is ps[i]; it consumed exactly the bytes of *)
(*              its own encoding (pos_after - pos_before = lens[i]) and    *)
(*              the size it reports equals that; it starts where the       *)
(*              previous one ended (no loss, no overlap)                   *)
(*   StreamEnd  after the last packet: position = stream length and the    *)
(*              front-end reports end of input (EOF error / Ok(None))      *)
(***************************************************************************)
EXTENDS TraceBase, Integers

VARIABLES l, r, i, pos, open          \* r = line of the run's StreamStart
vars == <<l, r, i, pos, open>>
ps == Rec[r].packets
lens == Rec[r].lens

Start(e) == ~open /\ r' = l /\ i' = 0 /\ pos' = 0 /\ open' = TRUE
            /\ Len(e.packets) = Len(e.lens)

Pkt(e) ==
    /\ open /\ i < Len(ps)
    /\ e.i = i + 1
    /\ e.res.k = "ok" /\ e.res.v = ps[i + 1]
    /\ e.pos_before = pos
    /\ e.pos_after - e.pos_before = lens[i + 1]
    /\ e.reported = lens[i + 1]
    /\ i' = i + 1 /\ pos' = e.pos_after /\ UNCHANGED <<r, open>>

\* (fronts: poll = random schedule, poll-whole = always-ready transport, async, block = the whole remaining slice,
\*  block-acc = the blocking decoder over a receive buffer that is filled in pieces, Ok(None) meaning "wait for more")
EndOfInput(front, res) == IF front \in {"block", "block-acc"} THEN res.k = "incomplete" ELSE res.k = "err" /\ res.eof

Finish(e) ==
    /\ open /\ i = Len(ps)
    /\ pos = Rec[r].total /\ e.pos = pos
    /\ EndOfInput(Rec[r].front, e.res)
    /\ open' = FALSE /\ UNCHANGED <<r, i, pos>>

Step(e) ==
    CASE e.ev = "StreamStart" -> Start(e)
      [] e.ev = "StreamPkt"   -> Pkt(e)
      [] e.ev = "StreamEnd"   -> Finish(e)
      [] e.ev = "End"         -> l = Len(Rec) /\ ~open /\ UNCHANGED <<r, i, pos, open>>
      [] OTHER -> FALSE

Init == l = 1 /\ r = 1 /\ i = 0 /\ pos = 0 /\ open = FALSE
Next == l <= Len(Rec) /\ Step(Rec[l]) /\ l' = l + 1
Spec == Init /\ [][Next]_vars
=============================================================================
