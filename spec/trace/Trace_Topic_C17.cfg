CONSTANT Prop = "C17"
SPECIFICATION Spec
POSTCONDITION TraceAccepted
CHECK_DEADLOCK FALSE
