CONSTANT Prop = "C13"
SPECIFICATION Spec
POSTCONDITION TraceAccepted
CHECK_DEADLOCK FALSE
