--------------------------- MODULE Trace_PollImpl ---------------------------
(***************************************************************************)
(* Beyond the listed properties: the poll decoder's CALLER-HELD STATE is   *)
(* bound to the implementation-shaped specification PollDecoder.tla, one   *)
(* trace event per spec action.                                            *)
(*                                                                         *)
(* Trace_Poll (C03 / C05) binds the code to the representation-free        *)
(* PollAbs, and MC_Poll shows PollDecoder => PollAbs.  This module closes  *)
(* the chain on the other side: the real decoder, run with the future      *)
(* dropped after EVERY poll, exposes its whole state in the public         *)
(*     GenericPollPacketState::Header { control_byte, var_idx, var_int }   *)
(*     GenericPollPacketState::Body   { header, total, idx, buf }          *)
(* and every recorded step must be a step of PollDecoder!Next that lands   *)
(* in exactly that state:                                                  *)
(*     Read(data, 1 byte, header phase)  = HdrByte                         *)
(*     Read(data, n bytes, body phase)   = BodyData(n)                     *)
(*     Read(pending) = TransportPending, Read(eof) = TransportEof,         *)
(*     Read(err kind) = TransportFail(kind)                                *)
(*     PollRet(pending) = DropFuture  (+ the state snapshot is compared)   *)
(*     PollRet(ready)   = the model is Done with the same output           *)
(* The capacity the decoder offers must be the model's Cap (one byte in    *)
(* the header, the unfilled rest of the body buffer in the body), and all  *)
(* state invariants of PollDecoder are evaluated in every state of the     *)
(* recorded behaviour (cfg: INVARIANT), ScheduleIndependent and            *)
(* LenientAgrees included.  One trace file holds runs of ONE family        *)
(* (Fam <- the family of the first event).                                 *)
(***************************************************************************)
EXTENDS PollDecoder, TraceBase

VARIABLE l
tvars == <<vars, l>>

TraceFam == Rec[1].fam
TraceKinds == {"ConnectionReset", "TimedOut", "BrokenPipe", "Interrupted", "WouldBlock"}
NoStreams == {}

HdrJson(h) == [typ |-> h.typ, dup |-> h.dup, qos |-> h.qos, retain |-> h.retain, remaining_len |-> h.rl]

\* the snapshot of the caller-held state equals the model's state
StateMatches(s) ==
    IF s.ph = "Hdr" THEN
        /\ hdr' = NoHdr                                   \* the model never entered the body phase
        /\ (s.cb = 0 - 1) = (cb' = <<>>)
        /\ (s.cb >= 0 => cb' = <<s.cb>>)
        /\ varIdx' = s.vi /\ varInt' = s.vn
    ELSE
        /\ hdr' # NoHdr
        /\ HdrJson(hdr') = s.h
        /\ total' = s.total /\ idx' = s.idx
        \* (the buffer is moved out to the caller with an accepted packet)
        /\ (Len(buf') = s.blen \/ (phase' = "Done" /\ out'.st = "ok" /\ s.blen = 0))

SameOut(o, q) ==
    /\ (q.st = "ok" => o.k = "ok" /\ o.v = q.v /\ o.total = q.used
                       /\ o.body = [i \in 1..Len(buf) |-> buf[i]])
    /\ (q.st = "err" => o.k = "err" /\ o.e = q.e /\ o.a = q.a)
    /\ q.st \in {"ok", "err"}

TReset(e) ==
    /\ e.fam = Fam
    /\ stream' = e.bytes /\ pos' = 0
    /\ phase' = "Hdr" /\ cb' = <<>> /\ varIdx' = 0 /\ varInt' = 0
    /\ hdr' = NoHdr /\ total' = 0 /\ idx' = 0 /\ buf' = <<>>
    /\ lastT' = "none" /\ ret' = "none" /\ out' = NoOut /\ fut' = 0

TRead(e) ==
    /\ e.pos = pos /\ e.cap = Cap
    /\ CASE e.ans = "data"    -> IF phase = "Hdr" THEN e.n = 1 /\ HdrByte ELSE BodyData(e.n)
         [] e.ans = "pending" -> TransportPending
         [] e.ans = "eof"     -> TransportEof
         [] e.ans = "err"     -> TransportFail(e.kind)
         [] OTHER -> FALSE

TPollRet(e) ==
    IF e.ret = "pending" THEN
        /\ ret = "pending" /\ DropFuture /\ StateMatches(e.st)
    ELSE
        /\ phase = "Done" /\ ret = "ready"
        /\ SameOut(e.out, out)
        /\ UNCHANGED vars /\ StateMatches(e.st)

Step(e) ==
    CASE e.ev = "Reset"   -> TReset(e)
      [] e.ev = "Read"    -> TRead(e)
      [] e.ev = "PollRet" -> TPollRet(e)
      [] e.ev = "End"     -> l = Len(Rec) /\ UNCHANGED vars
      [] OTHER -> FALSE

TInit == l = 1 /\ stream = <<>> /\ pos = 0 /\ phase = "Done" /\ cb = <<>> /\ varIdx = 0 /\ varInt = 0
         /\ hdr = NoHdr /\ total = 0 /\ idx = 0 /\ buf = <<>> /\ lastT = "none" /\ ret = "none" /\ out = NoOut /\ fut = 0
TNext == l <= Len(Rec) /\ Step(Rec[l]) /\ l' = l + 1
TSpec == TInit /\ [][TNext]_tvars

\* the initial (pre-Reset) state is "Done" with no output: the invariants that speak about Done states are guarded
Started == out # NoOut
TScheduleIndependent == Started => ScheduleIndependent
TEofMeansTruncated   == Started => EofMeansTruncated
TFailKeepsKind       == Started => FailKeepsKind
TConsumedIsReported  == Started => ConsumedIsReported
TNoUninitExposed     == Started => NoUninitExposed
TLenientAgrees       == Started => LenientAgrees
=============================================================================
