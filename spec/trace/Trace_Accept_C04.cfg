CONSTANT Prop = "C04"
SPECIFICATION Spec
POSTCONDITION TraceAccepted
CHECK_DEADLOCK FALSE
