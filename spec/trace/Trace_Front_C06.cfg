CONSTANT Prop = "C06"
SPECIFICATION Spec
POSTCONDITION TraceAccepted
CHECK_DEADLOCK FALSE
