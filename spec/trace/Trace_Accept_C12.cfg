CONSTANT Prop = "C12"
SPECIFICATION Spec
POSTCONDITION TraceAccepted
CHECK_DEADLOCK FALSE
