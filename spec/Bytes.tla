-------------------------------- MODULE Bytes --------------------------------
(***************************************************************************)
(* Byte-level vocabulary of the wire grammar: big-endian integers,         *)
(* length-prefixed fields and UTF-8 well-formedness (Unicode 15, Table     *)
(* 3-7: no surrogates, no overlong forms, nothing above U+10FFFF), which   *)
(* is what MQTT 1.5.4 [MQTT-1.5.4-1] requires of every UTF-8 Encoded       *)
(* String.  Operators never recurse per byte (TLC's recursion is           *)
(* super-linear in depth): FoldLeft / quantifiers / SubSeq only.           *)
(***************************************************************************)
EXTENDS Naturals, Sequences, SequencesExt

Byte == 0..255

U16(n)  == <<n \div 256, n % 256>>
ToU16(b, p) == b[p] * 256 + b[p + 1]
\* four-byte integers stay byte sequences everywhere (TLC integers are 32-bit signed)

\* length-prefixed field (MQTT 1.5.4 / 1.5.6); Len(s) <= 65535 is the caller's obligation
Field(s) == U16(Len(s)) \o s

\* UTF-8 DFA.  0 = between characters (accepting), 8 = dead.
Utf8Step(s, x) ==
    CASE s = 0 -> (IF x <= 127 THEN 0
                   ELSE IF x \in 194..223 THEN 1                 \* C2..DF   one continuation
                   ELSE IF x = 224 THEN 3                        \* E0       A0..BF then one
                   ELSE IF x \in 225..236 \/ x \in 238..239 THEN 2  \* E1..EC, EE..EF  two continuations
                   ELSE IF x = 237 THEN 4                        \* ED       80..9F then one (no surrogates)
                   ELSE IF x = 240 THEN 6                        \* F0       90..BF then two
                   ELSE IF x \in 241..243 THEN 5                 \* F1..F3   three continuations
                   ELSE IF x = 244 THEN 7                        \* F4       80..8F then two (<= U+10FFFF)
                   ELSE 8)
      [] s = 1 -> IF x \in 128..191 THEN 0 ELSE 8
      [] s = 2 -> IF x \in 128..191 THEN 1 ELSE 8
      [] s = 3 -> IF x \in 160..191 THEN 1 ELSE 8
      [] s = 4 -> IF x \in 128..159 THEN 1 ELSE 8
      [] s = 5 -> IF x \in 128..191 THEN 2 ELSE 8
      [] s = 6 -> IF x \in 144..191 THEN 2 ELSE 8
      [] s = 7 -> IF x \in 128..143 THEN 2 ELSE 8
      [] s = 8 -> 8
Utf8Ok(b) == FoldLeft(Utf8Step, 0, b) = 0

\* number of code points of a well-formed string = number of non-continuation bytes
IsContinuation(x) == x \in 128..191
NumChars(b) == FoldLeft(LAMBDA acc, x : IF IsContinuation(x) THEN acc ELSE acc + 1, 0, b)

StartsWith(b, pre) == Len(b) >= Len(pre) /\ SubSeq(b, 1, Len(pre)) = pre

\* lexicographic byte order (the order of Rust's str / String): -1, 0, 1
LexCmp(a, b) ==
    LET n == IF Len(a) < Len(b) THEN Len(a) ELSE Len(b)
        diff == {i \in 1..n : a[i] # b[i]}
    IN  IF diff = {} THEN (IF Len(a) < Len(b) THEN 0 - 1 ELSE IF Len(a) > Len(b) THEN 1 ELSE 0)
        ELSE LET i == CHOOSE i \in diff : \A j \in diff : i <= j
             IN IF a[i] < b[i] THEN 0 - 1 ELSE 1
=============================================================================
