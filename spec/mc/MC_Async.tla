------------------------------- MODULE MC_Async -------------------------------
(***************************************************************************)
(* Model-checking configuration of AsyncAbs: the stream set of MC_Poll     *)
(* (one small packet of every type, with a trailing byte, truncated,       *)
(* malformed, a two-byte length field) plus two packets back to back and   *)
(* the other family's CONNECT.                                             *)
(***************************************************************************)
EXTENDS AsyncAbs, SmallPackets, TLC

Valid == {Encode(Fam, p) : p \in SmallOf(Fam)}
Other == IF Fam = "v3" THEN "v5" ELSE "v3"
WideBody == [i \in 1..130 |-> IF i = 1 THEN 0 ELSE IF i = 2 THEN 1 ELSE IF i = 3 THEN 97 ELSE IF i = 4 /\ Fam = "v5" THEN 0 ELSE 7]
Malformed == {
    <<0, 0>>, <<64, 2, 0, 0>>, <<98, 2, 0, 1, 9>>, <<96, 2, 0, 1>>,
    <<192, 1, 0>>, <<192, 128, 0>>, <<208, 2, 0, 0>>,
    <<64, 0>>, <<64, 3, 0, 1, 0>>, <<64, 1, 0>>,
    <<48, 128, 128, 128, 128, 1>>, <<54, 3, 0, 1, 97>>,
    <<48, 4, 0, 2, 195, 40>>, <<48, 5, 0, 1, 43, 0, 0>>,
    <<130, 2, 0, 1>>, <<130, 6, 0, 1, 0, 1, 97, 3>>,
    <<16, 8, 0, 4, 77, 81, 84, 84, 9, 2>>,
    <<0>>, <<54, 128>>, <<54, 128, 128, 128, 128, 1>>, <<97, 128, 128>> }       \* invalid first byte AND a cut / over-long length
Foreign == {Encode(Other, p) : p \in {q \in SmallOf(Other) : q.t = "Connect"}}
MCStreams == Valid \cup {s \o <<255>> : s \in Valid} \cup {SubSeq(s, 1, Len(s) - 1) : s \in Valid}
             \cup Malformed \cup Foreign \cup {Frame(48, WideBody), SubSeq(Frame(48, WideBody), 1, 100)}
             \cup {s \o <<192, 0>> : s \in Valid}
MCKinds == {"ConnectionReset", "TimedOut"}

ASSUME \A i \in 31..36 : TLCSet(i, FALSE)
Mark(c, i) == c => TLCSet(i, TRUE)
Witness ==
    /\ Mark(out # NoOut /\ out.st = "ok" /\ pos < Len(stream), 31)            \* stopped before the end of the stream
    /\ Mark(out # NoOut /\ out.st = "err" /\ out.e = "UnexpectedProtocol", 32)
    /\ Mark(lastT = "Eof", 33)
    /\ Mark(lastT = "Fail", 34)
    /\ Mark(ret = "pending" /\ pos > 2, 35)
    /\ Mark(out # NoOut /\ out.st = "err" /\ out.e = "InvalidString", 36)
AllWitnessed == \A i \in 31..36 : TLCGet(i) = TRUE
=============================================================================
