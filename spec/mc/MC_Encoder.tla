----------------------------- MODULE MC_Encoder -----------------------------
(***************************************************************************)
(* Encoder model instances: for every small packet of both families        *)
(*   async : the packet encoding through write_all against every sink      *)
(*           behaviour (accept any k, Pending before any write, zero write, *)
(*           failure of two kinds at every position)                       *)
(*   stream: the body as the sequence of field-level write_all calls, into *)
(*           a blocking sink accepting any k per call                      *)
(* and the lemma that packet = control byte + minimal remaining length +   *)
(* streamed body (C09's last sentence).                                    *)
(***************************************************************************)
EXTENDS Encoder, SmallPackets, TLC

\* the body cut into pieces the way a field-by-field streaming encoder writes it: here simply into single
\* bytes and pairs (any slicing must give the same concatenation; the property does not fix the slicing)
RECURSIVE Slice(_, _)
Slice(b, n) == IF Len(b) = 0 THEN <<>>
               ELSE IF Len(b) <= n THEN <<b>>
               ELSE <<SubSeq(b, 1, n)>> \o Slice(SubSeq(b, n + 1, Len(b)), IF n = 1 THEN 2 ELSE 1)
Jobs(fam) == { <<"async", Encode(fam, p), <<Encode(fam, p)>> >> : p \in SmallOf(fam) }
             \cup { <<"stream", EncodeBody(fam, p), Slice(EncodeBody(fam, p), 2) \o <<<<>>>> >> : p \in SmallOf(fam) }
MCEncs == Jobs("v3") \cup Jobs("v5")
MCKinds == {"BrokenPipe", "Other"}
HeaderPlusBody == \A fam \in {"v3", "v5"} : \A p \in SmallOf(fam) :
                     Encode(fam, p) = <<ControlByte(p)>> \o EncVarInt(Len(EncodeBody(fam, p))) \o EncodeBody(fam, p)
ASSUME HeaderPlusBody
=============================================================================
