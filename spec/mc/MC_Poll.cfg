\* Fam is substituted by bin/check (v3, v5); run with -workers 1 (the Witness registers are per worker)
\* and WITHOUT -coverage (TLC's coverage instrumentation does not terminate on this module)
CONSTANT Fam = "v3"
CONSTANT Streams <- MCStreams
CONSTANT Kinds <- MCKinds
CONSTANT EmitStreams = FALSE
SPECIFICATION Spec
INVARIANT TypeOK ScheduleIndependent EofMeansTruncated FailKeepsKind PendingOnlyIfTransportDid ConsumedIsReported AsksWithinFrame BufferDiscipline NoUninitExposed HeaderStateIsPrefix LenientAgrees Witness
PROPERTY AbsSpec
POSTCONDITION AllWitnessed
CHECK_DEADLOCK FALSE
