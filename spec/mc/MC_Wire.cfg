\* bin/check substitutes Fam, Types, PropSubsetMax and EmitVectors
CONSTANT Fam = "v3"
CONSTANT Types <- AllTypes3
CONSTANT PropSubsetMax = 1
CONSTANT EmitVectors = FALSE
SPECIFICATION Spec
INVARIANT InDomain PrefixIncomplete RoundTrip Lengths TrailingIgnored Emit
CHECK_DEADLOCK FALSE
