------------------------------ MODULE MC_Topic ------------------------------
(***************************************************************************)
(* The single-pass topic-filter scanner as a transition system, checked    *)
(* against the declarative rule of Topic.tla on every string it can be fed.*)
(*                                                                         *)
(* One step = one character (a short byte sequence from Chars, so that     *)
(* character index and byte index differ, as they do in the code).  The    *)
(* scanner state is the one an implementation keeps: character index,      *)
(* byte index, last separator (character index), has_one / has_all,        *)
(* whether the "$share/" prefix is still possible, and the byte indices of *)
(* the two share separators.  Every reachable state is the end state of    *)
(* the string str fed so far, so the invariants compare the scanner's      *)
(* end-of-input verdict with TopicFilterOk(str) for ALL strings of up to   *)
(* MaxChars characters over Chars.                                         *)
(*                                                                         *)
(* The scanner is modelled as designed: an ordinary character after '+'    *)
(* in the same level kills the filter (the check the library lacked, D3).  *)
(***************************************************************************)
EXTENDS Topic, TLC

CONSTANTS MaxChars,      \* total number of characters fed
          Forced         \* the first Len(Forced) characters are fixed (to reach the shared-subscription states)
Chars == { <<47>>, <<43>>, <<35>>, <<36>>, <<115>>, <<104>>, <<97>>, <<114>>, <<101>>, <<120>>, <<0>>,
           <<195, 169>>, <<226, 130, 172>>, <<240, 159, 152, 128>> }
PrefixChars == <<36, 115, 104, 97, 114, 101, 47>>
ForcedNone   == <<>>
ForcedShare6 == << <<36>>, <<115>>, <<104>>, <<97>>, <<114>>, <<101>> >>                  \* "$share"
ForcedShare7 == << <<36>>, <<115>>, <<104>>, <<97>>, <<114>>, <<101>>, <<47>> >>          \* "$share/"
ForcedShareG == << <<36>>, <<115>>, <<104>>, <<97>>, <<114>>, <<101>>, <<47>>, <<195, 169>>, <<47>> >>   \* "$share/é/"

VARIABLES str, ci, bi, lastSep, hasOne, hasAll, isShared, groupSep, filterSep, dead
vars == <<str, ci, bi, lastSep, hasOne, hasAll, isShared, groupSep, filterSep, dead>>

Init == /\ str = <<>> /\ ci = 0 /\ bi = 0 /\ lastSep = 0 - 1 /\ hasOne = FALSE /\ hasAll = FALSE
        /\ isShared = TRUE /\ groupSep = 0 /\ filterSep = 0 /\ dead = FALSE

AtLevelStart == ci = 0 \/ lastSep = ci - 1

Feed(ch) ==
    LET c == ch[1]
        sh == isShared /\ ~(ci < 7 /\ (Len(ch) # 1 \/ c # PrefixChars[ci + 1]))
        inName == groupSep > 0 /\ filterSep = 0            \* between the two share separators
    IN
    /\ ci < MaxChars
    /\ (ci < Len(Forced) => ch = Forced[ci + 1])
    /\ str' = str \o ch
    /\ ci' = ci + 1
    /\ bi' = bi + Len(ch)
    /\ isShared' = sh
    /\ IF dead \/ c = NUL \/ hasAll THEN
            dead' = TRUE /\ UNCHANGED <<lastSep, hasOne, hasAll, groupSep, filterSep>>
       ELSE IF c = SLASH /\ Len(ch) = 1 THEN
            /\ groupSep' = IF sh /\ groupSep = 0 THEN bi ELSE groupSep
            /\ filterSep' = IF sh /\ groupSep # 0 /\ filterSep = 0 THEN bi ELSE filterSep
            /\ lastSep' = ci /\ hasOne' = FALSE /\ UNCHANGED hasAll
            /\ dead' = (hasOne /\ ~(lastSep = ci - 2 \/ ci = 1))
       ELSE IF c = HASH /\ Len(ch) = 1 THEN
            /\ dead' = (inName \/ hasOne \/ ~AtLevelStart)
            /\ hasAll' = TRUE /\ UNCHANGED <<lastSep, hasOne, groupSep, filterSep>>
       ELSE IF c = PLUS /\ Len(ch) = 1 THEN
            /\ dead' = (inName \/ hasOne \/ ~AtLevelStart)
            /\ hasOne' = TRUE /\ UNCHANGED <<lastSep, hasAll, groupSep, filterSep>>
       ELSE
            /\ dead' = hasOne                                   \* "+x": '+' must occupy the entire level
            /\ UNCHANGED <<lastSep, hasOne, hasAll, groupSep, filterSep>>

Next == \E ch \in Chars : Feed(ch)
Spec == Init /\ [][Next]_vars

\* the scanner's verdict if the input ended here
ScanInvalid ==
    \/ Len(str) > MaxTextLen \/ Len(str) = 0 \/ dead
    \/ (filterSep > 0 /\ filterSep = Len(str) - 1)              \* nothing after the share name's '/'
    \/ (groupSep > 0 /\ filterSep = 0)                          \* "$share/name" without a filter
    \/ (groupSep + 1 = filterSep)                               \* empty share name
ScanSep == IF ScanInvalid THEN 0 ELSE filterSep

VerdictAgrees == ScanInvalid = ~TopicFilterOk(str)
SepAgrees     == ~ScanInvalid => ScanSep = ShareSepIndex0(str)
GroupSepIs6   == groupSep \in {0, 6}
SplitIsUnique == IsShared(str) =>
                    /\ SharePrefix \o ShareName(str) \o <<SLASH>> \o ShareFilter(str) = str
                    /\ \A k \in 8..Len(str) :
                          (str[k] = SLASH /\ \A m \in 8..(k - 1) : str[m] # SLASH) => k = ShareSep(str)
                    /\ TopicFilterOk(ShareFilter(str)) /\ Len(ShareName(str)) >= 1
BytesChars    == bi = Len(str) /\ ci = NumChars(str) /\ Utf8Ok(str)
NameRule      == TopicNameOk(str) <=> (\A i \in 1..Len(str) : str[i] \notin {0, 43, 35})
=============================================================================
