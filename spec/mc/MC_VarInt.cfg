\* Dom: 21 boundary values + 9^4 digit-structured values; Alphabet: 6 byte values, strings of <= 4(+1) bytes
SPECIFICATION Spec
INVARIANT WriterPrefix WriterDone ReaderAgrees ReaderBounded Embedded
CHECK_DEADLOCK FALSE
