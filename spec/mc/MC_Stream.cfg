\* Fam substituted by bin/check; all sequences of up to MaxPackets packets from the pool, both front-ends
CONSTANT Fam = "v3"
CONSTANT MaxPackets = 3
SPECIFICATION SSpec
INVARIANT FramedInOrder CleanEnd
CHECK_DEADLOCK FALSE
