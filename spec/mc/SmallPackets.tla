---------------------------- MODULE SmallPackets ----------------------------
(***************************************************************************)
(* One small packet of every type of each family (several for the types    *)
(* with short forms): the common stimulus of the transition-system models  *)
(* (MC_Poll, MC_Encoder, MC_Stream).                                       *)
(***************************************************************************)
EXTENDS Wire

P3 == { [t |-> "Connack", sp |-> TRUE, code |-> "NotAuthorized"],
        [t |-> "Publish", dup |-> FALSE, retain |-> TRUE, qos |-> 1, pid |-> <<7>>, topic |-> <<97>>, payload |-> <<1, 2>>],
        [t |-> "Publish", dup |-> TRUE, retain |-> FALSE, qos |-> 0, pid |-> <<>>, topic |-> <<97, 47, 98>>, payload |-> <<>>],
        [t |-> "Puback", pid |-> 1], [t |-> "Pubrec", pid |-> 256], [t |-> "Pubrel", pid |-> 65535], [t |-> "Pubcomp", pid |-> 2],
        [t |-> "Subscribe", pid |-> 3, topics |-> <<[filter |-> <<97, 47, 43>>, qos |-> 2]>>],
        [t |-> "Suback", pid |-> 3, codes |-> <<"MaxLevel1", "Failure">>],
        [t |-> "Unsubscribe", pid |-> 4, topics |-> <<<<35>>>>],
        [t |-> "Unsuback", pid |-> 4], [t |-> "Pingreq"], [t |-> "Pingresp"], [t |-> "Disconnect"],
        [t |-> "Connect", protocol |-> "V311", clean |-> TRUE, keep_alive |-> 10, client_id |-> <<99>>, will |-> <<>>,
         username |-> <<>>, password |-> <<>>] }
E5(set) == EmptyProps(set)
P5 == { [t |-> "Connack", sp |-> FALSE, code |-> "Success", props |-> E5("Connack")],
        [t |-> "Publish", dup |-> FALSE, retain |-> FALSE, qos |-> 2, pid |-> <<9>>, topic |-> <<97>>, payload |-> <<1>>,
         props |-> [E5("Publish") EXCEPT !.pfi = <<FALSE>>]],
        [t |-> "Puback", pid |-> 1, code |-> "Success", props |-> E5("Puback")],
        [t |-> "Puback", pid |-> 1, code |-> "NotAuthorized", props |-> E5("Puback")],
        [t |-> "Pubrec", pid |-> 1, code |-> "Success", props |-> [E5("Pubrec") EXCEPT !.rs = <<<<114>>>>]],
        [t |-> "Pubrel", pid |-> 2, code |-> "PacketIdentifierNotFound", props |-> E5("Pubrel")],
        [t |-> "Pubcomp", pid |-> 2, code |-> "Success", props |-> E5("Pubcomp")],
        [t |-> "Subscribe", pid |-> 3, props |-> [E5("Subscribe") EXCEPT !.sid = <<128>>],
         topics |-> <<[filter |-> <<97>>, qos |-> 1, nl |-> TRUE, rap |-> FALSE, rh |-> "DoNotSend"]>>],
        [t |-> "Suback", pid |-> 3, props |-> E5("Suback"), codes |-> <<"GrantedQoS2", "NotAuthorized">>],
        [t |-> "Unsubscribe", pid |-> 4, props |-> [user |-> << <<<<107>>, <<118>>>> >>], topics |-> <<<<97>>>>],
        [t |-> "Unsuback", pid |-> 4, props |-> E5("Unsuback"), codes |-> <<"Success">>],
        [t |-> "Pingreq"], [t |-> "Pingresp"],
        [t |-> "Disconnect", code |-> "NormalDisconnect", props |-> E5("Disconnect")],
        [t |-> "Disconnect", code |-> "ServerMoved", props |-> E5("Disconnect")],
        [t |-> "Auth", code |-> "Success", props |-> E5("Auth")],
        [t |-> "Auth", code |-> "ContinueAuthentication", props |-> [E5("Auth") EXCEPT !.am = <<<<120>>>>]],
        [t |-> "Connect", protocol |-> "V500", clean |-> FALSE, keep_alive |-> 0, props |-> E5("Connect"),
         client_id |-> <<>>, will |-> <<>>, username |-> <<>>, password |-> <<>>] }

SmallOf(fam) == IF fam = "v3" THEN P3 ELSE P5
=============================================================================
