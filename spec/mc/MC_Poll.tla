------------------------------- MODULE MC_Poll -------------------------------
(***************************************************************************)
(* Model-checking configuration of PollDecoder / PollAbs: the stream set.  *)
(*                                                                         *)
(* Streams = the canonical encoding of one small packet of every type of   *)
(* the family, the same frames with a trailing byte, truncated ones,       *)
(* malformed ones (bad flags, over-long length, zero-length, body-less     *)
(* type declaring a body, leftover / missing body bytes, bad UTF-8), and   *)
(* a PUBLISH whose length field takes two bytes.  The transport may        *)
(* deliver any chunking, answer Pending before any read (the future may    *)
(* then be dropped), end the stream, or fail with any kind, at ANY point.  *)
(***************************************************************************)
EXTENDS PollDecoder, SmallPackets, TLC, Json

Valid == {Encode(Fam, p) : p \in SmallOf(Fam)}
WideBody == [i \in 1..130 |-> IF i = 1 THEN 0 ELSE IF i = 2 THEN 1 ELSE IF i = 3 THEN 97 ELSE IF i = 4 /\ Fam = "v5" THEN 0 ELSE 7]
Malformed == {
    <<0, 0>>, <<64, 2, 0, 0>>, <<98, 2, 0, 1, 9>>, <<96, 2, 0, 1>>,             \* type 0; zero pid; PUBREL + trailing; PUBREL flags 0
    <<192, 1, 0>>, <<192, 128, 0>>, <<208, 2, 0, 0>>,                          \* PINGREQ with a body; non-minimal zero length
    <<64, 0>>, <<64, 3, 0, 1, 0>>, <<64, 1, 0>>,                               \* zero length; v3 leftover / v5 short form; missing byte
    <<48, 128, 128, 128, 128, 1>>, <<54, 3, 0, 1, 97>>,                        \* over-long length; QoS 3
    <<48, 4, 0, 2, 195, 40>>, <<48, 5, 0, 1, 43, 0, 0>>,                       \* bad UTF-8 topic; wildcard in topic name
    <<130, 2, 0, 1>>, <<130, 6, 0, 1, 0, 1, 97, 3>>,                           \* empty subscription; bad QoS / option
    <<16, 8, 0, 4, 77, 81, 84, 84, 9, 2>>,
    <<0>>, <<54, 128>>, <<54, 128, 128, 128, 128, 1>>, <<97, 128, 128>> }       \* invalid first byte AND a cut / over-long length                                    \* unknown protocol level
MCStreams == Valid \cup {s \o <<255>> : s \in Valid} \cup {SubSeq(s, 1, Len(s) - 1) : s \in Valid}
             \cup Malformed \cup {Frame(48, WideBody), SubSeq(Frame(48, WideBody), 1, 100)}
MCKinds == {"ConnectionReset", "TimedOut"}
MCStreamsSmall == {<<64, 2, 0, 1>>, <<192, 0>>}
MCStreamsMed == Valid \cup Malformed
MCStreamsWide == {Frame(48, WideBody)}

\* ---- GEN: the stream set of this model as JSON vectors; the harness runs the real poll decoder on each of them
\* under every schedule (short streams) / many seeded schedules (long ones), and the runs are trace-validated
CONSTANT EmitStreams
ASSUME EmitStreams => \A s \in MCStreams : PrintT(<<"VEC", ToJson([fam |-> Fam, bytes |-> s])>>)

\* ---- vacuity guard: every interesting kind of end state and step is reached (run with -workers 1)
ASSUME \A i \in 11..22 : TLCSet(i, FALSE)
Mark(c, i) == c => TLCSet(i, TRUE)
Witness ==
    /\ Mark(phase = "Done" /\ out.st = "ok" /\ Len(buf) > 0, 11)              \* a packet with a body
    /\ Mark(phase = "Done" /\ out.st = "ok" /\ Len(buf) = 0, 12)              \* a body-less packet
    /\ Mark(phase = "Done" /\ out.st = "err" /\ out.e = "InvalidRemainingLength", 13)
    /\ Mark(phase = "Done" /\ out.st = "err" /\ out.e = "InvalidVarByteInt", 14)
    /\ Mark(phase = "Done" /\ lastT = "Eof", 15)
    /\ Mark(phase = "Done" /\ lastT = "Fail", 16)
    /\ Mark(ret = "pending" /\ phase = "Hdr" /\ varIdx > 0, 17)              \* Pending in the middle of the length field
    /\ Mark(ret = "pending" /\ phase = "Body" /\ idx > 0 /\ idx < Len(buf), 18)  \* Pending with a partly filled body
    /\ Mark(fut = 1 /\ phase = "Body" /\ idx > 0, 19)                        \* future dropped with a partly filled body
    /\ Mark(phase = "Done" /\ out.st = "err" /\ out.e = "InvalidString", 20)
    /\ Mark(phase = "Body" /\ hdr.w = 2, 21)                                 \* two-byte length field
    /\ Mark(phase = "Done" /\ out.st = "err" /\ out.e = "InvalidHeader", 22)
AllWitnessed == \A i \in 11..22 : TLCGet(i) = TRUE
=============================================================================
