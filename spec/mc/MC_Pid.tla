------------------------------- MODULE MC_Pid -------------------------------
(***************************************************************************)
(* Full state graph of the packet-identifier ring for a small bit width W  *)
(* (the cfg is instantiated for W = 2..8).  Transitions apply the          *)
(* wrapping-arithmetic forms (AddOvf, SubOvf) an implementation uses; the  *)
(* invariants compare them with the definition "u single steps around the  *)
(* ring" (Iter / IterBack), literally iterated.                             *)
(***************************************************************************)
EXTENDS Pid, TLC

VARIABLES prev, op, arg
mvars == <<pid, prev, op, arg>>

MInit == pid \in 1..R /\ prev = pid /\ op = "init" /\ arg = 0
MAdd(u) == pid' = AddOvf(pid, u) /\ prev' = pid /\ op' = "add" /\ arg' = u
MSub(u) == pid' = SubOvf(pid, u) /\ prev' = pid /\ op' = "sub" /\ arg' = u
MNext == \E u \in 0..(M - 1) : MAdd(u) \/ MSub(u)
MSpec == MInit /\ [][MNext]_mvars

InRing      == pid \in 1..R
AddIsSteps  == op = "add" => pid = Iter(prev, arg) /\ pid = Add(prev, arg)
SubIsSteps  == op = "sub" => pid = IterBack(prev, arg) /\ pid = Sub(prev, arg)
SubUndoesAdd == op = "add" => SubOvf(pid, arg) = prev
AddUndoesSub == op = "sub" => AddOvf(pid, arg) = prev
FullTurn    == AddOvf(pid, R) = pid /\ SubOvf(pid, R) = pid /\ AddOvf(pid, 0) = pid /\ SubOvf(pid, 0) = pid
\* the allocator law: + 1 is a single cycle through all R identifiers
SingleCycle == Iter(pid, R) = pid /\ \A k \in 1..(R - 1) : Iter(pid, k) # pid
TryFromOk   == /\ TryFrom(0).ok = FALSE
               /\ \A r \in 1..(M - 1) : TryFrom(r).ok /\ TryFrom(r).pid = r
=============================================================================
