\* W is substituted by bin/check for each width in 2..8
CONSTANT W = 6
SPECIFICATION MSpec
INVARIANT InRing AddIsSteps SubIsSteps SubUndoesAdd AddUndoesSub FullTurn SingleCycle TryFromOk
CHECK_DEADLOCK FALSE
