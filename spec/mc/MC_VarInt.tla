------------------------------ MODULE MC_VarInt ------------------------------
(***************************************************************************)
(* Bounded-exhaustive model of the two variable-byte-integer state         *)
(* machines, checked against the declarative definitions of VarInt.tla:    *)
(*                                                                         *)
(*  writer  (x, out)          : the standard's do-while loop, one digit    *)
(*                              per step, for every n of Dom;              *)
(*  reader  (seen, idx, acc,  : the byte-at-a-time reader (decode_var_int  *)
(*           rst)               and the poll decoder's header state fed    *)
(*                              one byte per step), for every byte string  *)
(*                              over Alphabet of up to 5 bytes.            *)
(*                                                                         *)
(* Constants (stated in MC_VarInt.cfg): Dom = the eight width boundaries   *)
(* +-2, 268435455, and all values with base-128 digits in DigitSet (12^4   *)
(* values); Alphabet = {0,1,127,128,129,255}.                              *)
(***************************************************************************)
EXTENDS VarInt, TLC, FiniteSets

DigitSet == {0, 1, 2, 63, 64, 100, 125, 126, 127}
Boundaries == {0, 1, 2, 126, 127, 128, 129, 130, 16382, 16383, 16384, 16385, 16386,
               2097150, 2097151, 2097152, 2097153, 2097154, 268435453, 268435454, 268435455}
Dom == Boundaries \cup
       { a + 128 * b + 16384 * c + 2097152 * d : a \in DigitSet, b \in DigitSet, c \in DigitSet, d \in DigitSet }
Alphabet == {0, 1, 127, 128, 129, 255}

VARIABLES mode,            \* "w" writer run, "r" reader run
          n, x, out, wdone,       \* writer: value, remaining quotient, bytes written, finished
          seen, idx, acc, rst     \* reader: bytes fed, var_idx, var_int, status "more" | "ok" | "err"
vars == <<mode, n, x, out, wdone, seen, idx, acc, rst>>

Init == \/ /\ mode = "w" /\ n \in Dom /\ x = n /\ out = <<>> /\ wdone = FALSE
           /\ seen = <<>> /\ idx = 0 /\ acc = 0 /\ rst = "more"
        \/ /\ mode = "r" /\ n = 0 /\ x = 0 /\ out = <<>> /\ wdone = TRUE
           /\ seen = <<>> /\ idx = 0 /\ acc = 0 /\ rst = "more"

\* one iteration of: byte = x % 128; x = x / 128; if x > 0 { byte |= 128 }; write(byte); if x == 0 break
WriteDigit ==
    /\ mode = "w" /\ ~wdone
    /\ LET q == x \div 128
           byte == IF q > 0 THEN 128 + (x % 128) ELSE x % 128
       IN /\ out' = Append(out, byte)
          /\ x' = q
          /\ wdone' = (q = 0)
    /\ UNCHANGED <<mode, n, seen, idx, acc, rst>>

\* one byte fed to: acc |= (byte & 0x7F) << (7*idx); if byte & 0x80 == 0 done; else if idx < 3 idx++ else error
ReadByte(b) ==
    /\ mode = "r" /\ rst = "more"
    /\ seen' = Append(seen, b)
    /\ acc' = acc + (b % 128) * Pow128(idx)
    /\ IF b < 128 THEN rst' = "ok" /\ idx' = idx
       ELSE IF idx < 3 THEN rst' = "more" /\ idx' = idx + 1
       ELSE rst' = "err" /\ idx' = idx
    /\ UNCHANGED <<mode, n, x, out, wdone>>

Next == WriteDigit \/ \E b \in Alphabet : ReadByte(b)
Spec == Init /\ [][Next]_vars

\* ---- properties
WriterPrefix == mode = "w" => \A i \in 1..Len(out) : out[i] = EncVarInt(n)[i]
WriterDone   == (mode = "w" /\ wdone) =>
                    /\ out = EncVarInt(n)
                    /\ out = EncLoop(n)
                    /\ Len(out) = VarIntLen(n)
                    /\ Minimal(out)
                    /\ Value(out) = n
                    /\ DecVarIntAt(out, 1) = [st |-> "ok", val |-> n, w |-> Len(out), next |-> Len(out) + 1]
                    /\ TotalLen(n) = n + 1 + Len(out)
                    /\ ValidTotal(TotalLen(n))
                    /\ HeaderLen(TotalLen(n)) = 1 + Len(out)
                    /\ HeaderLenThreshold(TotalLen(n)) = 1 + Len(out)
                    /\ RemainingLen(TotalLen(n)) = n
ReaderAgrees == mode = "r" =>
                    LET d == DecVarIntAt(seen, 1) IN
                    CASE rst = "more" -> d.st = "need" /\ idx = Len(seen)
                      [] rst = "ok"   -> d.st = "ok" /\ d.val = acc /\ d.w = Len(seen) /\ d.w = idx + 1
                                         /\ acc <= MaxVarInt /\ IsVarInt(seen) /\ Value(seen) = acc
                      [] rst = "err"  -> d.st = "err" /\ Len(seen) = 4
ReaderBounded == Len(seen) <= 4
\* a reader embedded in a longer string gives the same answer at any offset
Embedded == (mode = "r" /\ rst # "more") =>
                LET d1 == DecVarIntAt(seen, 1)
                    d2 == DecVarIntAt(<<7, 200>> \o seen \o <<9>>, 3)
                IN d1.st = d2.st /\ (d1.st = "ok" => d1.val = d2.val /\ d2.next = d1.next + 2)
=============================================================================
