------------------------------ MODULE MC_Stream ------------------------------
(***************************************************************************)
(* C08 at model level: a sequence ps of up to MaxPackets small packets is  *)
(* encoded back to back into one stream; a front-end decodes one packet at *)
(* a time from the current position and advances by what it reports.       *)
(*                                                                         *)
(*   front = "strict"  : the poll decoder's view (StrictParse of the rest) *)
(*   front = "lenient" : the blocking / async view (LenientParse of the    *)
(*                       rest), advancing by the bytes used                *)
(*                                                                         *)
(* The packet set contains zero-length-body packets, short forms and a     *)
(* PUBLISH whose payload looks like a fixed header, so that a decoder that *)
(* consumed one byte too many or too few would mis-frame what follows.     *)
(***************************************************************************)
EXTENDS SmallPackets, TLC

CONSTANTS Fam, MaxPackets
TrickyPublish == IF Fam = "v3"
    THEN [t |-> "Publish", dup |-> FALSE, retain |-> FALSE, qos |-> 0, pid |-> <<>>, topic |-> <<97>>, payload |-> <<192, 0, 64, 2>>]
    ELSE [t |-> "Publish", dup |-> FALSE, retain |-> FALSE, qos |-> 0, pid |-> <<>>, topic |-> <<97>>, payload |-> <<192, 0, 64, 2>>,
          props |-> EmptyProps("Publish")]
Pool == {p \in SmallOf(Fam) : p.t \in {"Pingreq", "Puback", "Disconnect", "Suback", "Publish", "Auth", "Connack"}} \cup {TrickyPublish}

VARIABLES ps, front, pos, got, ended
svars == <<ps, front, pos, got, ended>>

RECURSIVE Concat(_)
Concat(s) == IF s = <<>> THEN <<>> ELSE Encode(Fam, Head(s)) \o Concat(Tail(s))
stream == Concat(ps)
Rest == SubSeq(stream, pos + 1, Len(stream))

Seqs == UNION {[1..n -> Pool] : n \in 1..MaxPackets}
SInit == ps \in Seqs /\ front \in {"strict", "lenient"} /\ pos = 0 /\ got = <<>> /\ ended = FALSE

DecodeOne ==
    /\ ~ended
    /\ LET r == IF front = "strict" THEN StrictParse(Fam, Rest) ELSE LenientParse(Fam, Rest) IN
       IF r.st = "ok" THEN got' = Append(got, r.v) /\ pos' = pos + r.used /\ ended' = FALSE
       ELSE ended' = TRUE /\ got' = Append(got, [t |-> "END", st |-> r.st]) /\ pos' = pos
    /\ UNCHANGED <<ps, front>>
SSpec == SInit /\ [][DecodeOne]_svars

RECURSIVE SumLen(_)
SumLen(s) == IF s = <<>> THEN 0 ELSE Len(Encode(Fam, Head(s))) + SumLen(Tail(s))
Packets(g) == SelectSeq(g, LAMBDA x : x.t # "END")
FramedInOrder == LET g == Packets(got) IN
                 /\ Len(g) <= Len(ps) /\ g = SubSeq(ps, 1, Len(g))
                 /\ pos = SumLen(g)
CleanEnd == ended => /\ Packets(got) = ps /\ pos = Len(stream)
                     /\ got[Len(got)].st = "need"                \* end of input at a clean boundary, not an error
=============================================================================
