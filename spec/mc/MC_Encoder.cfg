CONSTANT Encs <- MCEncs
CONSTANT Kinds <- MCKinds
SPECIFICATION EFair
INVARIANT PrefixAlways OkMeansAll FailKeepsKind PendingOnlyIfSinkDid PiecesAreTheTarget
PROPERTY Finishes
CHECK_DEADLOCK FALSE
