\* liveness: with a transport that eventually answers something other than Pending, every run ends
CONSTANT Fam = "v3"
CONSTANT Streams <- MCStreams
CONSTANT Kinds <- MCKinds
SPECIFICATION FairSpec
PROPERTY Terminates
CHECK_DEADLOCK FALSE
