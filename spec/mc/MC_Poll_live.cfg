\* liveness: with a transport that eventually answers something other than Pending, every run ends
CONSTANT Fam = "v3"
CONSTANT Streams <- MCStreams
CONSTANT Kinds <- MCKinds
CONSTANT EmitStreams = FALSE
SPECIFICATION FairSpec
PROPERTY Terminates
CHECK_DEADLOCK FALSE
