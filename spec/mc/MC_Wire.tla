------------------------------ MODULE MC_Wire ------------------------------
(***************************************************************************)
(* Bounded-exhaustive packet domain of both families, and the wire         *)
(* grammar's own lemmas as a transition system: the canonical encoding of  *)
(* a packet p is delivered to the decoders one byte at a time (k bytes     *)
(* delivered so far).                                                      *)
(*                                                                         *)
(*   PrefixIncomplete  k < Len(enc): the lenient decoder reports "need"    *)
(*                     (C07) and the strict decoder is still waiting       *)
(*   RoundTrip         k = Len(enc): strict and lenient parse = p, all     *)
(*                     bytes used (C01, C10: grammar is self-consistent)   *)
(*   Lengths           Len(body) fits, header = control byte + minimal     *)
(*                     remaining length (C02)                              *)
(*   TrailingIgnored   enc followed by garbage parses to p, used = Len     *)
(*                     (C07, C08)                                          *)
(*   InDomain          ValidPacket(p)                                      *)
(*                                                                         *)
(* The domain (Dom) takes every packet type; every presence subset of      *)
(* optional fields; v5 properties: every subset of size <= PropSubsetMax    *)
(* and the full set, values from small sample sets; every return / reason  *)
(* code of every type; all PUBLISH flag combinations; all 36 valid         *)
(* subscription-option bytes; user-property lists of length 0..2 with      *)
(* repeated keys; strings from {"", "a", "e'", "a/b"}.                     *)
(*                                                                         *)
(* The same domain is the GEN source: with the Emit invariant TLC prints   *)
(* one JSON vector per packet, which the harness turns into real packets   *)
(* and pushes through the real encoder and decoders (bin/check, GEN).      *)
(***************************************************************************)
EXTENDS Wire, Json, SequencesExt

CONSTANTS Fam,              \* "v3" | "v5"
          Types,            \* set of packet type names explored by this run
          PropSubsetMax,    \* v5: property presence subsets up to this size (plus the full set)
          EmitVectors       \* TRUE: print a JSON vector for every packet (GEN), FALSE: check only

Str1 == {<<>>, <<97>>, <<195, 169>>}                       \* "", "a", "e'"
Str2 == {<<>>, <<97, 47, 98>>}                             \* "", "a/b"
TopicNames == {<<>>, <<97, 47, 98>>, <<36, 83, 89, 83, 47, 120>>, <<36, 115, 104, 97, 114, 101, 47, 103, 47, 116>>}   \* "", "a/b", "$SYS/x", "$share/g/t" (a NAME)      \* "", "a/b", "$SYS/x"
Filters == {<<97, 47, 43>>, <<35>>, <<36, 115, 104, 97, 114, 101, 47, 103, 47, 97, 47, 35>>}   \* "a/+", "#", "$share/g/a/#"
Bins == {<<>>, <<0, 255>>}
Pids == {1, 65535}
U32s == {<<0, 0, 0, 0>>, <<255, 255, 255, 255>>}
Opt(S) == {<<>>} \cup {<<x>> : x \in S}
Users == {<<>>, << <<<<107>>, <<118>>>> >>, << <<<<107>>, <<118>>>>, <<<<107>>, <<>>>> >>,    \* k=v ; k=v, k=""
          << <<<<107>>, <<118>>>>, <<<<107>>, <<118>>>> >>}                                 \* the same pair twice

SampleValues(pr) ==
    CASE pr.ty = "bool" -> {TRUE, FALSE}
      [] pr.ty = "qos01" -> {0, 1}
      [] pr.ty = "u16" -> {0, 65535}
      [] pr.ty = "u32" -> {<<0, 0, 1, 0>>}
      [] pr.ty = "str" -> {<<195, 169>>}
      [] pr.ty = "topic" -> {<<97, 47, 98>>}
      [] pr.ty = "bin" -> {<<0, 255>>}
      [] pr.ty = "varint" -> {0, 128, 268435455}

\* property records: every presence subset of at most PropSubsetMax keys with every sample value, and the
\* full set with one value per key; each crossed with the user-property lists
BaseProps(set) == [k \in PropKeys(set) \cup {"user"} |-> <<>>]
Pick(S) == CHOOSE v \in S : TRUE
With1(r, a, va) == [r EXCEPT ![a] = <<va>>]
Level1(set) == UNION { {With1(BaseProps(set), a, va) : va \in SampleValues(PropByKey(a))} : a \in PropKeys(set) }
Level2(set) == UNION { UNION { {With1(r, a, va) : va \in SampleValues(PropByKey(a))} : a \in {a \in PropKeys(set) : r[a] = <<>>} }
                       : r \in Level1(set) }
AllPresent(set) == [k \in PropKeys(set) \cup {"user"} |->
                        IF k = "user" THEN <<>> ELSE <<Pick(SampleValues(PropByKey(k)))>>]
PropsCore(set) == {BaseProps(set), AllPresent(set)}
                  \cup (IF PropSubsetMax >= 1 THEN Level1(set) ELSE {})
                  \cup (IF PropSubsetMax >= 2 THEN Level2(set) ELSE {})
PropsDom(set) == { [r EXCEPT !.user = u] : r \in PropsCore(set), u \in Users }

WillDom ==
    IF Fam = "v3" THEN { [qos |-> q, retain |-> r, topic |-> t, message |-> m] :
                            q \in 0..2, r \in BOOLEAN, t \in {<<97, 47, 98>>, <<>>}, m \in Bins }
    ELSE { [qos |-> q, retain |-> r, props |-> pp, topic |-> t, payload |-> m] :
              q \in {0, 2}, r \in BOOLEAN, t \in {<<97, 47, 98>>}, m \in {<<>>, <<97>>},
              pp \in PropsDom("Will") }

WithProps(base, set) == IF Fam = "v3" THEN {base} ELSE {base @@ [props |-> pp] : pp \in PropsDom(set)}

CodesOf(typ) == IF Fam = "v3" THEN (IF typ = "Connack" THEN Names(V3ConnectRC) ELSE Names(V3SubRC))
                ELSE Names(RCTable(typ))

SubTopicDom ==
    IF Fam = "v3" THEN { [filter |-> f, qos |-> q] : f \in Filters, q \in 0..2 }
    ELSE { [filter |-> f, qos |-> q, nl |-> nl, rap |-> rap, rh |-> rh] :
              \* "a/+" and the shared filter "$share/g/t": options x kind of filter (No Local on a shared filter is a
              \* protocol error for a SERVER to act on, not for a codec to alter or refuse)
              f \in {<<97, 47, 43>>, <<36, 115, 104, 97, 114, 101, 47, 103, 47, 116>>}, q \in 0..2, nl \in BOOLEAN, rap \in BOOLEAN,
              rh \in {"SendAtSubscribe", "SendAtSubscribeIfNotExist", "DoNotSend"} }
           \cup { [filter |-> f, qos |-> 1, nl |-> FALSE, rap |-> TRUE, rh |-> "SendAtSubscribe"] : f \in Filters }

DomOf(typ) ==
    CASE typ = "Connect" ->
            \* slice 1: no will, everything else varies; slice 2: every will, the rest fixed
            UNION { WithProps([t |-> "Connect", protocol |-> pv, clean |-> c, keep_alive |-> ka, client_id |-> id,
                               will |-> <<>>, username |-> u, password |-> pw], "Connect") :
                      pv \in (IF Fam = "v3" THEN {"V310", "V311"} ELSE {"V500"}), c \in BOOLEAN, ka \in {0, 65535},
                      id \in {<<>>, <<195, 169>>}, u \in Opt({<<97>>}), pw \in Opt({<<0, 255>>}) }
            \cup { [t |-> "Connect", protocol |-> (IF Fam = "v3" THEN "V311" ELSE "V500"), clean |-> TRUE,
                    keep_alive |-> 10, client_id |-> <<99>>, will |-> <<w>>, username |-> u, password |-> <<>>]
                   @@ (IF Fam = "v5" THEN [props |-> BaseProps("Connect")] ELSE <<>>) :
                      w \in WillDom, u \in Opt({<<97>>}) }
      [] typ = "Connack" ->
            UNION { WithProps([t |-> "Connack", sp |-> sp, code |-> c], "Connack") : sp \in BOOLEAN, c \in CodesOf("Connack") }
      [] typ = "Publish" ->
            UNION { WithProps([t |-> "Publish", dup |-> d, retain |-> r, qos |-> q,
                               pid |-> IF q = 0 THEN <<>> ELSE <<pid>>, topic |-> tp, payload |-> pl], "Publish") :
                      d \in BOOLEAN, r \in BOOLEAN, q \in 0..2, pid \in Pids, tp \in TopicNames, pl \in {<<>>, <<97>>, <<48, 2>>} }
      [] typ \in {"Puback", "Pubrec", "Pubrel", "Pubcomp"} ->
            IF Fam = "v3" THEN { [t |-> typ, pid |-> pid] : pid \in Pids }
            ELSE UNION { WithProps([t |-> typ, pid |-> pid, code |-> c], typ) : pid \in Pids, c \in CodesOf(typ) }
      [] typ = "Subscribe" ->
            UNION { WithProps([t |-> "Subscribe", pid |-> pid, topics |-> ts], "Subscribe") :
                      pid \in Pids, ts \in {<<a>> : a \in SubTopicDom} \cup {<<a, a>> : a \in SubTopicDom} }
      [] typ = "Suback" ->
            UNION { WithProps([t |-> "Suback", pid |-> pid, codes |-> cs], "Suback") :
                      pid \in Pids, cs \in {<<>>} \cup {<<c>> : c \in CodesOf("Suback")}
                                              \cup {<<c, d>> : c \in CodesOf("Suback"), d \in CodesOf("Suback")} }
      [] typ = "Unsubscribe" ->
            UNION { WithProps([t |-> "Unsubscribe", pid |-> pid, topics |-> ts], "Unsubscribe") :
                      pid \in Pids, ts \in {<<a>> : a \in Filters} \cup {<<a, b>> : a \in Filters, b \in Filters} }
      [] typ = "Unsuback" ->
            IF Fam = "v3" THEN { [t |-> typ, pid |-> pid] : pid \in Pids }
            ELSE UNION { WithProps([t |-> "Unsuback", pid |-> pid, codes |-> cs], "Unsuback") :
                      pid \in Pids, cs \in {<<>>} \cup {<<c>> : c \in CodesOf("Unsuback")}
                                              \cup {<<c, d>> : c \in CodesOf("Unsuback"), d \in CodesOf("Unsuback")} }
      [] typ \in {"Pingreq", "Pingresp"} -> { [t |-> typ] }
      [] typ = "Disconnect" ->
            IF Fam = "v3" THEN { [t |-> typ] }
            ELSE UNION { WithProps([t |-> typ, code |-> c], typ) : c \in CodesOf(typ) }
      [] typ = "Auth" -> UNION { WithProps([t |-> typ, code |-> c], typ) : c \in CodesOf(typ) }

\* outside the codec's valid domain by construction of the sample sets: a flagged-UTF-8 payload that is not UTF-8
InValidDomain(p) ==
    /\ (p.t = "Publish" /\ Fam = "v5" => (p.props.pfi = <<TRUE>> => Utf8Ok(p.payload)))
    /\ (p.t = "Connect" /\ Fam = "v5" /\ p.will # <<>> => (p.will[1].props.pfi = <<TRUE>> => Utf8Ok(p.will[1].payload)))
Dom == { p \in UNION {DomOf(t) : t \in Types} : InValidDomain(p) }

AllTypes3 == {"Connect", "Connack", "Publish", "Puback", "Pubrec", "Pubrel", "Pubcomp", "Subscribe", "Suback",
              "Unsubscribe", "Unsuback", "Pingreq", "Pingresp", "Disconnect"}
AllTypes5 == AllTypes3 \cup {"Auth"}
TypesA == {"Connect"}
TypesB == {"Connack"}
TypesC == {"Publish"}
TypesD == AllTypes5 \ {"Connect", "Connack", "Publish"}

VARIABLES p, k
vars == <<p, k>>
enc == Encode(Fam, p)

Init == p \in Dom /\ k = 0
Deliver == k < Len(enc) /\ k' = k + 1 /\ UNCHANGED p
Spec == Init /\ [][Deliver]_vars

Garbage == <<255, 0, 48>>

InDomain == ValidPacket(Fam, p)
PrefixIncomplete ==
    k < Len(enc) =>
        /\ LenientParse(Fam, SubSeq(enc, 1, k)).st = "need"
        /\ (k >= 2 /\ DecVarIntAt(enc, 2).st = "ok" /\ k >= 1 + DecVarIntAt(enc, 2).w =>
                StrictParse(Fam, SubSeq(enc, 1, k)).st = "need")
RoundTrip ==
    k = Len(enc) =>
        LET s == StrictParse(Fam, enc)
            q == LenientParse(Fam, enc)
        IN  /\ s.st = "ok" /\ s.v = p /\ s.used = Len(enc)
            /\ q.st = "ok" /\ q.v = p /\ q.used = Len(enc)
Lengths ==
    k = 0 =>
        LET body == EncodeBody(Fam, p) IN
        /\ Len(body) <= MaxVarInt
        /\ enc = <<ControlByte(p)>> \o EncVarInt(Len(body)) \o body
        /\ Len(enc) = TotalLen(Len(body))
        /\ StartsWithCompleteFrame(Fam, enc) /\ FrameEnd(Fam, enc) = Len(enc)
TrailingIgnored ==
    k = Len(enc) =>
        LET q == LenientParse(Fam, enc \o Garbage) IN q.st = "ok" /\ q.v = p /\ q.used = Len(enc)
\* every text field of every packet of the domain decodes to itself: no two packets share an encoding
Emit == (EmitVectors /\ k = 0) => PrintT(<<"VEC", ToJson([fam |-> Fam, packet |-> p, bytes |-> enc])>>)
=============================================================================
