\* all strings of up to MaxChars characters over the 14-character alphabet whose first characters are Forced
\* (bin/check runs the variants: no prefix, "$share", "$share/", "$share/e'/")
CONSTANT MaxChars = 4
CONSTANT Forced <- ForcedNone
SPECIFICATION Spec
INVARIANT VerdictAgrees SepAgrees GroupSepIs6 SplitIsUnique BytesChars NameRule
CHECK_DEADLOCK FALSE
