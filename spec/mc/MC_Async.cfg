\* Fam is substituted by bin/check (v3, v5); run with -workers 1 (witness registers)
CONSTANT Fam = "v3"
CONSTANT Streams <- MCStreams
CONSTANT Kinds <- MCKinds
SPECIFICATION LFair
INVARIANT ScheduleIndependent EofMeansUndecided FailKeepsKind PendingOnlyIfTransportDid ConsumedIsUsed NeverPastDecision StopsAtDecision Lemmas Witness
PROPERTY Finishes
POSTCONDITION AllWitnessed
CHECK_DEADLOCK FALSE
