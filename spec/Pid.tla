-------------------------------- MODULE Pid --------------------------------
(***************************************************************************)
(* Packet identifiers: the ring 1..R (R = 2^W - 1; MQTT: W = 16), never 0. *)
(* The specification of + and - is "that many single steps around the      *)
(* ring".  AddOvf / SubOvf are the wrapping-arithmetic forms an            *)
(* implementation uses (W-bit add with carry correction); MC_Pid and       *)
(* Ap_Pid show they coincide with the stepping definition.                 *)
(***************************************************************************)
EXTENDS Naturals

CONSTANT W                       \* bit width
M == 2 ^ W                       \* modulus of the machine integer
R == M - 1                       \* ring size, identifiers are 1..R

Step(x)     == IF x = R THEN 1 ELSE x + 1
StepBack(x) == IF x = 1 THEN R ELSE x - 1

RECURSIVE Iter(_, _)
Iter(x, u) == IF u = 0 THEN x ELSE Iter(Step(x), u - 1)
RECURSIVE IterBack(_, _)
IterBack(x, u) == IF u = 0 THEN x ELSE IterBack(StepBack(x), u - 1)

\* closed forms of u steps on the ring 1..R
Add(x, u) == ((x - 1 + u) % R) + 1
Sub(x, u) == ((x - 1 + 2 * R - u) % R) + 1          \* u <= R, so the dividend is never negative

\* W-bit wrapping forms: add, and one more if the addition carried; subtract, one less if it
\* borrowed, and 0 is replaced by R
AddOvf(x, u) == LET s == x + u IN IF s < M THEN s ELSE (s - M) + 1
SubOvf(x, u) == LET d == IF x >= u THEN x - u ELSE x + M - u
                IN IF d = 0 THEN R ELSE IF x >= u THEN d ELSE d - 1

TryFrom(raw) == IF raw = 0 THEN [ok |-> FALSE] ELSE [ok |-> TRUE, pid |-> raw]

VARIABLE pid
PInit == pid \in 1..R
PAdd(u) == pid' = Add(pid, u)
PSub(u) == pid' = Sub(pid, u)
PNext == \E u \in 0..(M - 1) : PAdd(u) \/ PSub(u)
PSpec == PInit /\ [][PNext]_pid

NeverZero == pid \in 1..R
=============================================================================
