-------------------------------- MODULE Wire --------------------------------
(***************************************************************************)
(* The MQTT wire grammar of both codec families ("v3" = v3.1 + v3.1.1,     *)
(* "v5" = v5.0) as executable TLA+ operators over byte sequences.          *)
(*                                                                         *)
(*   tables      packet types and required flag nibbles (v3.1.1 / v5.0     *)
(*               Table 2-1/2-2), CONNACK return codes (v3.1.1 Table 3.1),  *)
(*               reason codes PER PACKET TYPE (v5.0 3.2.2.2, 3.4.2.1,      *)
(*               3.5.2.1, 3.6.2.1, 3.7.2.1, 3.9.3, 3.11.3, 3.14.2.1,       *)
(*               3.15.2.1), property identifiers with wire type and the    *)
(*               packets that may carry them (v5.0 Table 2-4).             *)
(*   Encode      the canonical encoding of an abstract packet.             *)
(*   ParseBody   an operational parser: the reads and checks in the order  *)
(*               in which a streaming decoder performs them (DESIGN.md     *)
(*               Appendix A) -- the order is part of the specification     *)
(*               because which error wins (C20) and whether a truncated    *)
(*               input is "incomplete" (C07) depend on it.                 *)
(*   StrictParse a frame = exactly one packet (the poll decoder's view).   *)
(*   LenientParse a stream that starts with a packet (the blocking / async *)
(*               decoders' view).                                          *)
(*                                                                         *)
(* Numbers come from the OASIS texts; NAMES of codes and properties are    *)
(* the identifiers the library uses for the same concept (so that values   *)
(* can travel by name between the harness and this module).                *)
(*                                                                         *)
(* Abstract packets are records (DESIGN.md Appendix C): text = byte        *)
(* sequence, option = <<>> / <<v>>, four-byte integer = 4-byte sequence.   *)
(***************************************************************************)
EXTENDS Topic, VarInt, Integers, FiniteSets, TLC

\* ------------------------------------------------------------------------------------------------
\* reader results
OK(v, p)   == [st |-> "ok", v |-> v, p |-> p]
NEED       == [st |-> "need"]
ERR(e, a)  == [st |-> "err", e |-> e, a |-> a]
IsOk(r)    == r.st = "ok"

RU8(b, p)  == IF p <= Len(b) THEN OK(b[p], p + 1) ELSE NEED
RU16(b, p) == IF p + 1 <= Len(b) THEN OK(b[p] * 256 + b[p + 1], p + 2) ELSE NEED
RU32(b, p) == IF p + 3 <= Len(b) THEN OK(SubSeq(b, p, p + 3), p + 4) ELSE NEED
RBytes(b, p, n) == IF n = 0 THEN OK(<<>>, p)
                   ELSE IF p + n - 1 <= Len(b) THEN OK(SubSeq(b, p, p + n - 1), p + n) ELSE NEED
RBin(b, p) == LET l == RU16(b, p) IN IF ~IsOk(l) THEN l ELSE RBytes(b, l.p, l.v)
RStr(b, p) == LET r == RBin(b, p) IN
              IF IsOk(r) /\ ~Utf8Ok(r.v) THEN ERR("InvalidString", <<>>) ELSE r
RVarInt(b, p) == LET d == DecVarIntAt(b, p) IN
                 CASE d.st = "ok"   -> [st |-> "ok", v |-> d.val, p |-> d.next, w |-> d.w]
                   [] d.st = "need" -> NEED
                   [] d.st = "err"  -> ERR("InvalidVarByteInt", <<>>)
RPid(b, p) == LET r == RU16(b, p) IN
              IF IsOk(r) /\ r.v = 0 THEN ERR("ZeroPid", <<>>) ELSE r

\* ------------------------------------------------------------------------------------------------
\* fixed header (v3.1.1 2.2, v5.0 2.1)
TypeName(t) == CASE t = 1 -> "Connect" [] t = 2 -> "Connack" [] t = 3 -> "Publish" [] t = 4 -> "Puback"
                 [] t = 5 -> "Pubrec" [] t = 6 -> "Pubrel" [] t = 7 -> "Pubcomp" [] t = 8 -> "Subscribe"
                 [] t = 9 -> "Suback" [] t = 10 -> "Unsubscribe" [] t = 11 -> "Unsuback" [] t = 12 -> "Pingreq"
                 [] t = 13 -> "Pingresp" [] t = 14 -> "Disconnect" [] t = 15 -> "Auth"
TypeNum(n) == CHOOSE t \in 1..15 : TypeName(t) = n
\* required flag nibble of every type but PUBLISH: PUBREL, SUBSCRIBE, UNSUBSCRIBE carry 0b0010, all others 0
RequiredFlags(t) == IF t \in {6, 8, 10} THEN 2 ELSE 0

ParseHeader(fam, b) ==
    LET c == RU8(b, 1) IN IF ~IsOk(c) THEN c ELSE
    LET v == RVarInt(b, 2) IN IF ~IsOk(v) THEN v ELSE
    LET t == c.v \div 16
        fl == c.v % 16
    IN  IF t = 0 \/ (t = 15 /\ fam = "v3") THEN ERR("InvalidHeader", <<>>)
        ELSE IF t = 3 THEN
            (IF (fl \div 2) % 4 = 3 THEN ERR("InvalidQos", <<3>>)
             ELSE OK([typ |-> "Publish", dup |-> fl >= 8, qos |-> (fl \div 2) % 4, retain |-> fl % 2 = 1,
                      rl |-> v.v, w |-> v.w], v.p))
        ELSE IF fl # RequiredFlags(t) THEN ERR("InvalidHeader", <<>>)
        ELSE OK([typ |-> TypeName(t), dup |-> FALSE, qos |-> 0, retain |-> FALSE, rl |-> v.v, w |-> v.w], v.p)

\* ------------------------------------------------------------------------------------------------
\* code tables: <<number, name>>
Lookup(tab, n) == LET hit == {i \in 1..Len(tab) : tab[i][1] = n} IN
                  IF hit = {} THEN "" ELSE tab[CHOOSE i \in hit : TRUE][2]
CodeOf(tab, name) == tab[CHOOSE i \in 1..Len(tab) : tab[i][2] = name][1]
Names(tab) == {tab[i][2] : i \in 1..Len(tab)}

V3ConnectRC == << <<0, "Accepted">>, <<1, "UnacceptableProtocolVersion">>, <<2, "IdentifierRejected">>,
                  <<3, "ServerUnavailable">>, <<4, "BadUserNameOrPassword">>, <<5, "NotAuthorized">> >>
V3SubRC == << <<0, "MaxLevel0">>, <<1, "MaxLevel1">>, <<2, "MaxLevel2">>, <<128, "Failure">> >>

ConnackRC == << <<0, "Success">>, <<128, "UnspecifiedError">>, <<129, "MalformedPacket">>, <<130, "ProtocolError">>,
    <<131, "ImplementationSpecificError">>, <<132, "UnsupportedProtocolVersion">>, <<133, "ClientIdentifierNotValid">>,
    <<134, "BadUserNameOrPassword">>, <<135, "NotAuthorized">>, <<136, "ServerUnavailable">>, <<137, "ServerBusy">>,
    <<138, "Banned">>, <<140, "BadAuthMethod">>, <<144, "TopicNameInvalid">>, <<149, "PacketTooLarge">>,
    <<151, "QuotaExceeded">>, <<153, "PayloadFormatInvalid">>, <<154, "RetainNotSupported">>, <<155, "QoSNotSupported">>,
    <<156, "UseAnotherServer">>, <<157, "ServerMoved">>, <<159, "ConnectionRateExceeded">> >>
PubackRC == << <<0, "Success">>, <<16, "NoMatchingSubscribers">>, <<128, "UnspecifiedError">>,
    <<131, "ImplementationSpecificError">>, <<135, "NotAuthorized">>, <<144, "TopicNameInvalid">>,
    <<145, "PacketIdentifierInUse">>, <<151, "QuotaExceeded">>, <<153, "PayloadFormatInvalid">> >>
PubrelRC == << <<0, "Success">>, <<146, "PacketIdentifierNotFound">> >>
SubackRC == << <<0, "GrantedQoS0">>, <<1, "GrantedQoS1">>, <<2, "GrantedQoS2">>, <<128, "UnspecifiedError">>,
    <<131, "ImplementationSpecificError">>, <<135, "NotAuthorized">>, <<143, "TopicFilterInvalid">>,
    <<145, "PacketIdentifierInUse">>, <<151, "QuotaExceeded">>, <<158, "SharedSubscriptionNotSupported">>,
    <<161, "SubscriptionIdentifiersNotSupported">>, <<162, "WildcardSubscriptionsNotSupported">> >>
UnsubackRC == << <<0, "Success">>, <<17, "NoSubscriptionExisted">>, <<128, "UnspecifiedError">>,
    <<131, "ImplementationSpecificError">>, <<135, "NotAuthorized">>, <<143, "TopicFilterInvalid">>,
    <<145, "PacketIdentifierInUse">> >>
DisconnectRC == << <<0, "NormalDisconnect">>, <<4, "DisconnectWithWillMessage">>, <<128, "UnspecifiedError">>,
    <<129, "MalformedPacket">>, <<130, "ProtocolError">>, <<131, "ImplementationSpecificError">>, <<135, "NotAuthorized">>,
    <<137, "ServerBusy">>, <<139, "ServerShuttingDown">>, <<141, "KeepAliveTimeout">>, <<142, "SessionTakenOver">>,
    <<143, "TopicFilterInvalid">>, <<144, "TopicNameInvalid">>, <<147, "ReceiveMaximumExceeded">>,
    <<148, "TopicAliasInvalid">>, <<149, "PacketTooLarge">>, <<150, "MessageRateTooHigh">>, <<151, "QuotaExceeded">>,
    <<152, "AdministrativeAction">>, <<153, "PayloadFormatInvalid">>, <<154, "RetainNotSupported">>,
    <<155, "QoSNotSupported">>, <<156, "UserAnotherServer">>, <<157, "ServerMoved">>,
    <<158, "SharedSubscriptionNotSupported">>, <<159, "ConnectionRateExceeded">>, <<160, "MaximumConnectTime">>,
    <<161, "SubscriptionIdentifiersNotSupported">>, <<162, "WildcardSubscriptionsNotSupported">> >>
AuthRC == << <<0, "Success">>, <<24, "ContinueAuthentication">>, <<25, "ReAuthentication">> >>

RCTable(typ) == CASE typ = "Connack" -> ConnackRC [] typ \in {"Puback", "Pubrec"} -> PubackRC
                  [] typ \in {"Pubrel", "Pubcomp"} -> PubrelRC [] typ = "Suback" -> SubackRC
                  [] typ = "Unsuback" -> UnsubackRC [] typ = "Disconnect" -> DisconnectRC [] typ = "Auth" -> AuthRC
RetainHandlingRC == << <<0, "SendAtSubscribe">>, <<1, "SendAtSubscribeIfNotExist">>, <<2, "DoNotSend">> >>

\* ------------------------------------------------------------------------------------------------
\* properties (v5.0 2.2.2.2, Table 2-4): identifier, abstract key, wire type, name
PropTable == <<
    [id |-> 1,  key |-> "pfi", ty |-> "bool", name |-> "PayloadFormatIndicator"],
    [id |-> 2,  key |-> "mei", ty |-> "u32",  name |-> "MessageExpiryInterval"],
    [id |-> 3,  key |-> "ct",  ty |-> "str",  name |-> "ContentType"],
    [id |-> 8,  key |-> "rt",  ty |-> "topic", name |-> "ResponseTopic"],
    [id |-> 9,  key |-> "cd",  ty |-> "bin",  name |-> "CorrelationData"],
    [id |-> 11, key |-> "sid", ty |-> "varint", name |-> "SubscriptionIdentifier"],
    [id |-> 17, key |-> "sei", ty |-> "u32",  name |-> "SessionExpiryInterval"],
    [id |-> 18, key |-> "aci", ty |-> "str",  name |-> "AssignedClientIdentifier"],
    [id |-> 19, key |-> "ska", ty |-> "u16",  name |-> "ServerKeepAlive"],
    [id |-> 21, key |-> "am",  ty |-> "str",  name |-> "AuthenticationMethod"],
    [id |-> 22, key |-> "ad",  ty |-> "bin",  name |-> "AuthenticationData"],
    [id |-> 23, key |-> "rpi", ty |-> "bool", name |-> "RequestProblemInformation"],
    [id |-> 24, key |-> "wdi", ty |-> "u32",  name |-> "WillDelayInterval"],
    [id |-> 25, key |-> "rri", ty |-> "bool", name |-> "RequestResponseInformation"],
    [id |-> 26, key |-> "ri",  ty |-> "str",  name |-> "ResponseInformation"],
    [id |-> 28, key |-> "sr",  ty |-> "str",  name |-> "ServerReference"],
    [id |-> 31, key |-> "rs",  ty |-> "str",  name |-> "ReasonString"],
    [id |-> 33, key |-> "rm",  ty |-> "u16",  name |-> "ReceiveMaximum"],
    [id |-> 34, key |-> "tam", ty |-> "u16",  name |-> "TopicAliasMaximum"],
    [id |-> 35, key |-> "ta",  ty |-> "u16",  name |-> "TopicAlias"],
    [id |-> 36, key |-> "mq",  ty |-> "qos01", name |-> "MaximumQoS"],
    [id |-> 37, key |-> "ra",  ty |-> "bool", name |-> "RetainAvailable"],
    [id |-> 38, key |-> "user", ty |-> "pair", name |-> "UserProperty"],
    [id |-> 39, key |-> "mps", ty |-> "u32",  name |-> "MaximumPacketSize"],
    [id |-> 40, key |-> "wsa", ty |-> "bool", name |-> "WildcardSubscriptionAvailable"],
    [id |-> 41, key |-> "sia", ty |-> "bool", name |-> "SubscriptionIdentifierAvailable"],
    [id |-> 42, key |-> "ssa", ty |-> "bool", name |-> "SharedSubscriptionAvailable"] >>
NoProp == [id |-> 0, key |-> "", ty |-> "", name |-> ""]
PropById == [i \in 0..255 |->
                LET hit == {k \in 1..Len(PropTable) : PropTable[k].id = i} IN
                IF hit = {} THEN NoProp ELSE PropTable[CHOOSE k \in hit : TRUE]]
PropByKey(key) == PropTable[CHOOSE k \in 1..Len(PropTable) : PropTable[k].key = key]

\* which properties a packet type (or the will) may carry, in the order the canonical encoder writes them
\* (any order is conformant; user properties are written last)
PropOrder(set) ==
    CASE set = "Connect"  -> <<"sei", "rm", "mps", "tam", "rri", "rpi", "am", "ad">>
      [] set = "Will"     -> <<"wdi", "pfi", "mei", "ct", "rt", "cd">>
      [] set = "Connack"  -> <<"sei", "rm", "mq", "ra", "mps", "aci", "tam", "rs", "wsa", "sia", "ssa", "ska", "ri",
                               "sr", "am", "ad">>
      [] set = "Publish"  -> <<"pfi", "mei", "ta", "rt", "cd", "sid", "ct">>
      [] set \in {"Puback", "Pubrec", "Pubrel", "Pubcomp", "Suback", "Unsuback"} -> <<"rs">>
      [] set = "Subscribe" -> <<"sid">>
      [] set = "Unsubscribe" -> <<>>
      [] set = "Disconnect" -> <<"sei", "rs", "sr">>
      [] set = "Auth" -> <<"am", "ad", "rs">>
PropKeys(set) == {PropOrder(set)[i] : i \in 1..Len(PropOrder(set))}
\* Table 2-4, column "Packet / Will Properties", as identifiers (independent restatement of the rows above)
AllowedIds(set) ==
    CASE set = "Connect"  -> {17, 21, 22, 23, 25, 33, 34, 38, 39}
      [] set = "Will"     -> {1, 2, 3, 8, 9, 24, 38}
      [] set = "Connack"  -> {17, 18, 19, 21, 22, 26, 28, 31, 33, 34, 36, 37, 38, 39, 40, 41, 42}
      [] set = "Publish"  -> {1, 2, 3, 8, 9, 11, 35, 38}
      [] set \in {"Puback", "Pubrec", "Pubrel", "Pubcomp", "Suback", "Unsuback"} -> {31, 38}
      [] set = "Subscribe" -> {11, 38}
      [] set = "Unsubscribe" -> {38}
      [] set = "Disconnect" -> {17, 28, 31, 38}
      [] set = "Auth" -> {21, 22, 31, 38}
EmptyProps(set) == [k \in PropKeys(set) \cup {"user"} |-> <<>>]

\* canonical encoding of one present property value
EncPropValue(pr, v) ==
    CASE pr.ty = "bool"   -> <<IF v THEN 1 ELSE 0>>
      [] pr.ty = "qos01"  -> <<v>>
      [] pr.ty = "u16"    -> U16(v)
      [] pr.ty = "u32"    -> v
      [] pr.ty \in {"str", "topic", "bin"} -> Field(v)
      [] pr.ty = "varint" -> EncVarInt(v)
EncUser(u) == <<38>> \o Field(u[1]) \o Field(u[2])
RECURSIVE EncUsers(_)
EncUsers(us) == IF us = <<>> THEN <<>> ELSE EncUser(Head(us)) \o EncUsers(Tail(us))
RECURSIVE EncKeyed(_, _, _)
EncKeyed(props, order, i) ==
    IF i > Len(order) THEN <<>>
    ELSE LET pr == PropByKey(order[i]) IN
         (IF props[order[i]] = <<>> THEN <<>> ELSE <<pr.id>> \o EncPropValue(pr, props[order[i]][1]))
         \o EncKeyed(props, order, i + 1)
PropsContent(set, props) == EncKeyed(props, PropOrder(set), 1) \o EncUsers(props.user)
EncProps(set, props) == LET c == PropsContent(set, props) IN EncVarInt(Len(c)) \o c
IsDefaultProps(set, props) == props = EmptyProps(set)

\* ------------------------------------------------------------------------------------------------
\* canonical encoder
ProtoPair(pv) == CASE pv = "V310" -> <<<<77, 81, 73, 115, 100, 112>>, 3>>     \* "MQIsdp", 3
                   [] pv = "V311" -> <<<<77, 81, 84, 84>>, 4>>                \* "MQTT", 4
                   [] pv = "V500" -> <<<<77, 81, 84, 84>>, 5>>                \* "MQTT", 5
B(x) == IF x THEN 1 ELSE 0
ConnectFlags(p) ==
    B(p.username # <<>>) * 128 + B(p.password # <<>>) * 64
    + (IF p.will # <<>> THEN B(p.will[1].retain) * 32 + p.will[1].qos * 8 + 4 ELSE 0)
    + B(p.clean) * 2
EncWill(fam, w) == (IF fam = "v5" THEN EncProps("Will", w.props) ELSE <<>>)
                   \o Field(w.topic) \o Field(IF fam = "v5" THEN w.payload ELSE w.message)
OptField(o) == IF o = <<>> THEN <<>> ELSE Field(o[1])
SubOptByte(t) == t.qos + B(t.nl) * 4 + B(t.rap) * 8 + CodeOf(RetainHandlingRC, t.rh) * 16
RECURSIVE EncTopics(_, _, _)
EncTopics(fam, kind, ts) ==
    IF ts = <<>> THEN <<>>
    ELSE (IF kind = "sub" THEN Field(Head(ts).filter) \o <<IF fam = "v3" THEN Head(ts).qos ELSE SubOptByte(Head(ts))>>
          ELSE Field(Head(ts)))
         \o EncTopics(fam, kind, Tail(ts))
EncCodes(tab, cs) == IF cs = <<>> THEN <<>> ELSE [i \in 1..Len(cs) |-> CodeOf(tab, cs[i])]

ControlByte(p) ==
    IF p.t = "Publish" THEN 48 + B(p.dup) * 8 + p.qos * 2 + B(p.retain)
    ELSE TypeNum(p.t) * 16 + RequiredFlags(TypeNum(p.t))

EncodeBody(fam, p) ==
    CASE p.t = "Connect" ->
            Field(ProtoPair(p.protocol)[1]) \o <<ProtoPair(p.protocol)[2], ConnectFlags(p)>> \o U16(p.keep_alive)
            \o (IF fam = "v5" THEN EncProps("Connect", p.props) ELSE <<>>)
            \o Field(p.client_id)
            \o (IF p.will # <<>> THEN EncWill(fam, p.will[1]) ELSE <<>>)
            \o OptField(p.username) \o OptField(p.password)
      [] p.t = "Connack" ->
            IF fam = "v3" THEN <<B(p.sp), CodeOf(V3ConnectRC, p.code)>>
            ELSE <<B(p.sp), CodeOf(ConnackRC, p.code)>> \o EncProps("Connack", p.props)
      [] p.t = "Publish" ->
            Field(p.topic) \o (IF p.pid # <<>> THEN U16(p.pid[1]) ELSE <<>>)
            \o (IF fam = "v5" THEN EncProps("Publish", p.props) ELSE <<>>) \o p.payload
      [] p.t \in {"Puback", "Pubrec", "Pubrel", "Pubcomp"} ->
            IF fam = "v3" THEN U16(p.pid)
            ELSE IF IsDefaultProps(p.t, p.props) THEN
                    (IF p.code = "Success" THEN U16(p.pid) ELSE U16(p.pid) \o <<CodeOf(RCTable(p.t), p.code)>>)
            ELSE U16(p.pid) \o <<CodeOf(RCTable(p.t), p.code)>> \o EncProps(p.t, p.props)
      [] p.t = "Subscribe" ->
            U16(p.pid) \o (IF fam = "v5" THEN EncProps("Subscribe", p.props) ELSE <<>>) \o EncTopics(fam, "sub", p.topics)
      [] p.t = "Suback" ->
            U16(p.pid) \o (IF fam = "v5" THEN EncProps("Suback", p.props) ELSE <<>>)
            \o EncCodes(IF fam = "v3" THEN V3SubRC ELSE SubackRC, p.codes)
      [] p.t = "Unsubscribe" ->
            U16(p.pid) \o (IF fam = "v5" THEN EncProps("Unsubscribe", p.props) ELSE <<>>) \o EncTopics(fam, "unsub", p.topics)
      [] p.t = "Unsuback" ->
            IF fam = "v3" THEN U16(p.pid)
            ELSE U16(p.pid) \o EncProps("Unsuback", p.props) \o EncCodes(UnsubackRC, p.codes)
      [] p.t \in {"Pingreq", "Pingresp"} -> <<>>
      [] p.t = "Disconnect" ->
            IF fam = "v3" THEN <<>>
            ELSE IF IsDefaultProps("Disconnect", p.props) THEN
                    (IF p.code = "NormalDisconnect" THEN <<>> ELSE <<CodeOf(DisconnectRC, p.code)>>)
            ELSE <<CodeOf(DisconnectRC, p.code)>> \o EncProps("Disconnect", p.props)
      [] p.t = "Auth" ->
            IF p.code = "Success" /\ IsDefaultProps("Auth", p.props) THEN <<>>
            ELSE <<CodeOf(AuthRC, p.code)>> \o EncProps("Auth", p.props)

Frame(ctl, body) == <<ctl>> \o EncVarInt(Len(body)) \o body
Encode(fam, p) == Frame(ControlByte(p), EncodeBody(fam, p))

\* ------------------------------------------------------------------------------------------------
\* operational parser: properties
PropName(id) == PropById[id].name

\* one property value at position p; `have` = the value already stored for this key (<<>> if none)
ParsePropValue(pr, have, b, p) ==
    IF pr.ty # "pair" /\ have # <<>> THEN ERR("DuplicatedProperty", <<pr.name>>)       \* before the value is read
    ELSE CASE pr.ty = "bool" ->
                LET r == RU8(b, p) IN IF ~IsOk(r) THEN r
                ELSE IF r.v > 1 THEN ERR("InvalidByteProperty", <<pr.name, r.v>>) ELSE OK(r.v = 1, r.p)
           [] pr.ty = "qos01" ->
                LET r == RU8(b, p) IN IF ~IsOk(r) THEN r
                ELSE IF r.v > 1 THEN ERR("InvalidByteProperty", <<pr.name, r.v>>) ELSE r
           [] pr.ty = "u16" -> RU16(b, p)
           [] pr.ty = "u32" -> RU32(b, p)
           [] pr.ty = "str" -> RStr(b, p)
           [] pr.ty = "topic" ->
                LET r == RStr(b, p) IN
                IF IsOk(r) /\ ~TopicNameOk(r.v) THEN ERR("InvalidResponseTopic", <<>>) ELSE r
           [] pr.ty = "bin" -> RBin(b, p)
           [] pr.ty = "varint" -> LET r == RVarInt(b, p) IN IF IsOk(r) THEN OK(r.v, r.p) ELSE r
           [] pr.ty = "pair" ->
                LET k == RStr(b, p) IN IF ~IsOk(k) THEN k ELSE
                LET v == RStr(b, k.p) IN IF ~IsOk(v) THEN v ELSE OK(<<k.v, v.v>>, v.p)

\* size an encoder would give this property (the decoder accounts with it: DESIGN.md section 1)
CanonPropLen(pr, v) == IF pr.ty = "pair" THEN 1 + 4 + Len(v[1]) + Len(v[2]) ELSE 1 + Len(EncPropValue(pr, v))

\* while declared > counted: id, whitelist, value.  `counted` is the canonical size of what was stored.
\* (user properties are accumulated in a separate sequence: updating a record field per property makes TLC
\* copy the whole record each time, which is quadratic for long user-property lists)
RECURSIVE PropLoop(_, _, _, _, _, _, _, _)
PropLoop(set, ptyp, b, p, plen, counted, props, users) ==
    IF plen <= counted THEN
        (IF plen # counted THEN ERR("InvalidPropertyLength", <<plen>>) ELSE OK([props EXCEPT !.user = users], p))
    ELSE
        LET idr == RU8(b, p) IN IF ~IsOk(idr) THEN idr ELSE
        LET pr == PropById[idr.v] IN
        IF pr.id = 0 THEN ERR("InvalidPropertyId", <<idr.v>>)
        ELSE IF pr.id \notin AllowedIds(set) THEN
            (IF set = "Will" THEN ERR("InvalidWillProperty", <<pr.name>>) ELSE ERR("InvalidProperty", <<ptyp, pr.name>>))
        ELSE
            LET vr == ParsePropValue(pr, props[pr.key], b, idr.p) IN IF ~IsOk(vr) THEN vr ELSE
            IF pr.ty = "pair" THEN
                PropLoop(set, ptyp, b, vr.p, plen, counted + CanonPropLen(pr, vr.v), props, Append(users, vr.v))
            ELSE
                PropLoop(set, ptyp, b, vr.p, plen, counted + CanonPropLen(pr, vr.v),
                         [props EXCEPT ![pr.key] = <<vr.v>>], users)

\* result value: [props, canon = size the canonical encoder gives the whole block, w = bytes of the length prefix]
ParseProps(set, ptyp, b, p) ==
    LET l == RVarInt(b, p) IN IF ~IsOk(l) THEN l ELSE
    LET r == PropLoop(set, ptyp, b, l.p, l.v, 0, EmptyProps(set), <<>>) IN IF ~IsOk(r) THEN r ELSE
    OK([props |-> r.v, canon |-> VarIntLen(l.v) + l.v, w |-> l.w, plen |-> l.v], r.p)

\* ------------------------------------------------------------------------------------------------
\* operational parser: bodies.  h = parsed header, b = bytes available to the body decoder, p = position
Proto(name, level) ==
    IF name = <<77, 81, 73, 115, 100, 112>> /\ level = 3 THEN OK("V310", 0)
    ELSE IF name = <<77, 81, 84, 84>> /\ level = 4 THEN OK("V311", 0)
    ELSE IF name = <<77, 81, 84, 84>> /\ level = 5 THEN OK("V500", 0)
    ELSE IF ~Utf8Ok(name) THEN ERR("InvalidString", <<>>)
    ELSE ERR("InvalidProtocol", <<name, level>>)

\* CONNECT after protocol name and level (also the "known protocol" entry point of C13)
ConnectAfterProto(fam, pv, b, p0) ==
    IF fam = "v3" /\ pv = "V500" THEN ERR("UnexpectedProtocol", <<pv>>)
    ELSE IF fam = "v5" /\ pv # "V500" THEN ERR("UnexpectedProtocol", <<pv>>)
    ELSE
    LET fl == RU8(b, p0) IN IF ~IsOk(fl) THEN fl ELSE
    IF fl.v % 2 = 1 THEN ERR("InvalidConnectFlags", <<fl.v>>) ELSE
    LET f == fl.v
        ka == RU16(b, fl.p) IN IF ~IsOk(ka) THEN ka ELSE
    LET pp == IF fam = "v5" THEN ParseProps("Connect", "Connect", b, ka.p) ELSE OK([props |-> <<>>], ka.p)
    IN IF ~IsOk(pp) THEN pp ELSE
    LET cid == RStr(b, pp.p) IN IF ~IsOk(cid) THEN cid ELSE
    LET wq == (f \div 8) % 4
        wret == (f \div 32) % 2 = 1
        will ==
            IF (f \div 4) % 2 = 1 THEN
                IF fam = "v3" THEN
                    LET tp == RStr(b, cid.p) IN IF ~IsOk(tp) THEN tp ELSE
                    LET ms == RBin(b, tp.p) IN IF ~IsOk(ms) THEN ms ELSE
                    IF wq = 3 THEN ERR("InvalidQos", <<3>>)
                    ELSE IF ~TopicNameOk(tp.v) THEN ERR("InvalidTopicName", <<tp.v>>)
                    ELSE OK(<<[qos |-> wq, retain |-> wret, topic |-> tp.v, message |-> ms.v]>>, ms.p)
                ELSE
                    IF wq = 3 THEN ERR("InvalidQos", <<3>>) ELSE
                    LET wp == ParseProps("Will", "Connect", b, cid.p) IN IF ~IsOk(wp) THEN wp ELSE
                    LET tp == RStr(b, wp.p) IN IF ~IsOk(tp) THEN tp ELSE
                    IF ~TopicNameOk(tp.v) THEN ERR("InvalidTopicName", <<tp.v>>) ELSE
                    LET ms == RBin(b, tp.p) IN IF ~IsOk(ms) THEN ms ELSE
                    IF wp.v.props.pfi = <<TRUE>> /\ ~Utf8Ok(ms.v) THEN ERR("InvalidPayloadFormat", <<>>)
                    ELSE OK(<<[qos |-> wq, retain |-> wret, props |-> wp.v.props, topic |-> tp.v, payload |-> ms.v]>>, ms.p)
            ELSE IF wq # 0 THEN ERR("InvalidConnectFlags", <<f>>)
            ELSE OK(<<>>, cid.p)
    IN IF ~IsOk(will) THEN will ELSE
    LET un == IF f >= 128 THEN RStr(b, will.p) ELSE OK(<<>>, will.p) IN IF ~IsOk(un) THEN un ELSE
    LET pw == IF (f \div 64) % 2 = 1 THEN RBin(b, un.p) ELSE OK(<<>>, un.p) IN IF ~IsOk(pw) THEN pw ELSE
    LET base == [t |-> "Connect", protocol |-> pv, clean |-> (f \div 2) % 2 = 1, keep_alive |-> ka.v,
                 client_id |-> cid.v, will |-> will.v,
                 username |-> IF f >= 128 THEN <<un.v>> ELSE <<>>,
                 password |-> IF (f \div 64) % 2 = 1 THEN <<pw.v>> ELSE <<>>]
    IN OK(IF fam = "v5" THEN base @@ [props |-> pp.v.props] ELSE base, pw.p)

\* position right after protocol name and level (what C13 allows the gate to have consumed)
ParseConnect(fam, b, p) ==
    LET nm == RBin(b, p) IN IF ~IsOk(nm) THEN nm ELSE
    LET lv == RU8(b, nm.p) IN IF ~IsOk(lv) THEN lv ELSE
    LET pv == Proto(nm.v, lv.v) IN IF ~IsOk(pv) THEN pv ELSE
    ConnectAfterProto(fam, pv.v, b, lv.p)

ParseConnack(fam, b, p) ==
    LET r == RBytes(b, p, 2) IN IF ~IsOk(r) THEN r ELSE
    IF r.v[1] > 1 THEN ERR("InvalidConnackFlags", <<r.v[1]>>) ELSE
    IF fam = "v3" THEN
        (IF Lookup(V3ConnectRC, r.v[2]) = "" THEN ERR("InvalidConnectReturnCode", <<r.v[2]>>)
         ELSE OK([t |-> "Connack", sp |-> r.v[1] = 1, code |-> Lookup(V3ConnectRC, r.v[2])], r.p))
    ELSE
        IF Lookup(ConnackRC, r.v[2]) = "" THEN ERR("InvalidReasonCode", <<"Connack", r.v[2]>>) ELSE
        LET pp == ParseProps("Connack", "Connack", b, r.p) IN IF ~IsOk(pp) THEN pp ELSE
        OK([t |-> "Connack", sp |-> r.v[1] = 1, code |-> Lookup(ConnackRC, r.v[2]), props |-> pp.v.props], pp.p)

IRL == ERR("InvalidRemainingLength", <<>>)

ParsePublish(fam, h, b, p) ==
    LET tp == RStr(b, p) IN IF ~IsOk(tp) THEN tp ELSE
    LET r1 == h.rl - (2 + Len(tp.v)) IN IF r1 < 0 THEN IRL ELSE
    LET r2 == IF h.qos > 0 THEN r1 - 2 ELSE r1 IN IF r2 < 0 THEN IRL ELSE
    LET pid == IF h.qos > 0 THEN RPid(b, tp.p) ELSE OK(0, tp.p) IN IF ~IsOk(pid) THEN pid ELSE
    LET pp == IF fam = "v5" THEN ParseProps("Publish", "Publish", b, pid.p) ELSE OK([canon |-> 0], pid.p)
    IN IF ~IsOk(pp) THEN pp ELSE
    LET r3 == r2 - pp.v.canon IN IF r3 < 0 THEN IRL ELSE
    LET pl == RBytes(b, pp.p, r3) IN IF ~IsOk(pl) THEN pl ELSE
    IF fam = "v5" /\ pp.v.props.pfi = <<TRUE>> /\ ~Utf8Ok(pl.v) THEN ERR("InvalidPayloadFormat", <<>>) ELSE
    IF ~TopicNameOk(tp.v) THEN ERR("InvalidTopicName", <<tp.v>>) ELSE
    LET base == [t |-> "Publish", dup |-> h.dup, retain |-> h.retain, qos |-> h.qos,
                 pid |-> IF h.qos > 0 THEN <<pid.v>> ELSE <<>>, topic |-> tp.v, payload |-> pl.v]
    IN OK(IF fam = "v5" THEN base @@ [props |-> pp.v.props] ELSE base, pl.p)

ParseAck(fam, h, b, p) ==      \* PUBACK, PUBREC, PUBREL, PUBCOMP (and v3 UNSUBACK)
    LET pid == RPid(b, p) IN IF ~IsOk(pid) THEN pid ELSE
    IF fam = "v3" THEN OK([t |-> h.typ, pid |-> pid.v], pid.p)
    ELSE IF h.rl = 2 THEN OK([t |-> h.typ, pid |-> pid.v, code |-> "Success", props |-> EmptyProps(h.typ)], pid.p)
    ELSE
        LET c == RU8(b, pid.p) IN IF ~IsOk(c) THEN c ELSE
        IF Lookup(RCTable(h.typ), c.v) = "" THEN ERR("InvalidReasonCode", <<h.typ, c.v>>) ELSE
        IF h.rl = 3 THEN OK([t |-> h.typ, pid |-> pid.v, code |-> Lookup(RCTable(h.typ), c.v),
                             props |-> EmptyProps(h.typ)], c.p)
        ELSE
            LET pp == ParseProps(h.typ, h.typ, b, c.p) IN IF ~IsOk(pp) THEN pp ELSE
            OK([t |-> h.typ, pid |-> pid.v, code |-> Lookup(RCTable(h.typ), c.v), props |-> pp.v.props], pp.p)

SubOptions(o) == [qos |-> o % 4, nl |-> (o \div 4) % 2 = 1, rap |-> (o \div 8) % 2 = 1,
                  rh |-> Lookup(RetainHandlingRC, (o \div 16) % 4)]
RECURSIVE TopicLoop(_, _, _, _, _, _)
TopicLoop(fam, kind, b, p, rem, acc) ==
    IF rem = 0 THEN OK(acc, p) ELSE
    LET f == RStr(b, p) IN IF ~IsOk(f) THEN f ELSE
    IF ~TopicFilterOk(f.v) THEN ERR("InvalidTopicFilter", <<f.v>>) ELSE
    IF kind = "unsub" THEN
        (IF rem - (2 + Len(f.v)) < 0 THEN IRL ELSE TopicLoop(fam, kind, b, f.p, rem - (2 + Len(f.v)), Append(acc, f.v)))
    ELSE
        LET o == RU8(b, f.p) IN IF ~IsOk(o) THEN o ELSE
        IF fam = "v3" /\ o.v > 2 THEN ERR("InvalidQos", <<o.v>>) ELSE
        IF fam = "v5" /\ (o.v >= 64 \/ o.v % 4 = 3 \/ (o.v \div 16) % 4 = 3) THEN ERR("InvalidSubscriptionOption", <<o.v>>) ELSE
        IF rem - (3 + Len(f.v)) < 0 THEN IRL ELSE
        TopicLoop(fam, kind, b, o.p, rem - (3 + Len(f.v)),
                  Append(acc, IF fam = "v3" THEN [filter |-> f.v, qos |-> o.v] ELSE [filter |-> f.v] @@ SubOptions(o.v)))

\* v5 UNSUBSCRIBE has its own property loop (user properties only) and accounts with the bytes actually read
RECURSIVE UnsubPropLoop(_, _, _, _, _)
UnsubPropLoop(b, p, plen, counted, users) ==
    IF plen <= counted THEN
        (IF plen # counted THEN ERR("InvalidPropertyLength", <<plen>>) ELSE OK(users, p))
    ELSE
        LET idr == RU8(b, p) IN IF ~IsOk(idr) THEN idr ELSE
        IF PropById[idr.v].id = 0 THEN ERR("InvalidPropertyId", <<idr.v>>) ELSE
        IF idr.v # 38 THEN ERR("InvalidProperty", <<"Unsubscribe", PropName(idr.v)>>) ELSE
        LET k == RStr(b, idr.p) IN IF ~IsOk(k) THEN k ELSE
        LET v == RStr(b, k.p) IN IF ~IsOk(v) THEN v ELSE
        UnsubPropLoop(b, v.p, plen, counted + 5 + Len(k.v) + Len(v.v), Append(users, <<k.v, v.v>>))

ParseSubscribe(fam, kind, h, b, p) ==
    LET pid == RPid(b, p) IN IF ~IsOk(pid) THEN pid ELSE
    LET pp == IF fam = "v3" THEN OK([canon |-> 0], pid.p)
              ELSE IF kind = "sub" THEN ParseProps("Subscribe", "Subscribe", b, pid.p)
              ELSE LET l == RVarInt(b, pid.p) IN IF ~IsOk(l) THEN l ELSE
                   LET u == UnsubPropLoop(b, l.p, l.v, 0, <<>>) IN IF ~IsOk(u) THEN u ELSE
                   OK([props |-> [user |-> u.v], canon |-> l.w + l.v], u.p)
    IN IF ~IsOk(pp) THEN pp ELSE
    LET rem == h.rl - (2 + pp.v.canon) IN IF rem < 0 THEN IRL ELSE
    IF rem = 0 THEN ERR("EmptySubscription", <<>>) ELSE
    LET ts == TopicLoop(fam, kind, b, pp.p, rem, <<>>) IN IF ~IsOk(ts) THEN ts ELSE
    LET base == [t |-> h.typ, pid |-> pid.v, topics |-> ts.v]
    IN OK(IF fam = "v5" THEN base @@ [props |-> pp.v.props] ELSE base, ts.p)

\* rem code bytes, each from tab; the first unknown code is the error; running out of input is "need"
ParseCodes(tab, errname, typ, b, p, rem) ==
    LET avail == Len(b) - p + 1
        n == IF rem < avail THEN rem ELSE (IF avail < 0 THEN 0 ELSE avail)
        bad == {i \in 0..(n - 1) : Lookup(tab, b[p + i]) = ""}
    IN IF bad # {} THEN
            LET i == CHOOSE i \in bad : \A j \in bad : i <= j IN
            (IF errname = "InvalidQos" THEN ERR("InvalidQos", <<b[p + i]>>) ELSE ERR("InvalidReasonCode", <<typ, b[p + i]>>))
       ELSE IF n < rem THEN NEED
       ELSE OK(IF n = 0 THEN <<>> ELSE [i \in 1..n |-> Lookup(tab, b[p + i - 1])], p + n)

ParseSuback(fam, h, b, p) ==    \* SUBACK, and v5 UNSUBACK
    LET pid == RPid(b, p) IN IF ~IsOk(pid) THEN pid ELSE
    LET pp == IF fam = "v5" THEN ParseProps(h.typ, h.typ, b, pid.p) ELSE OK([canon |-> 0], pid.p)
    IN IF ~IsOk(pp) THEN pp ELSE
    LET rem == h.rl - (2 + pp.v.canon) IN IF rem < 0 THEN IRL ELSE
    LET cs == IF fam = "v3" THEN ParseCodes(V3SubRC, "InvalidQos", h.typ, b, pp.p, rem)
              ELSE ParseCodes(RCTable(h.typ), "InvalidReasonCode", h.typ, b, pp.p, rem)
    IN IF ~IsOk(cs) THEN cs ELSE
    LET base == [t |-> h.typ, pid |-> pid.v, codes |-> cs.v]
    IN OK(IF fam = "v5" THEN base @@ [props |-> pp.v.props] ELSE base, cs.p)

ParseDisconnectAuth(h, b, p) ==      \* v5 only
    LET dflt == IF h.typ = "Disconnect" THEN "NormalDisconnect" ELSE "Success" IN
    IF h.rl = 0 THEN OK([t |-> h.typ, code |-> dflt, props |-> EmptyProps(h.typ)], p) ELSE
    LET c == RU8(b, p) IN IF ~IsOk(c) THEN c ELSE
    IF Lookup(RCTable(h.typ), c.v) = "" THEN ERR("InvalidReasonCode", <<h.typ, c.v>>) ELSE
    IF h.typ = "Disconnect" /\ h.rl = 1 THEN
        OK([t |-> h.typ, code |-> Lookup(DisconnectRC, c.v), props |-> EmptyProps(h.typ)], c.p)
    ELSE
        LET pp == ParseProps(h.typ, h.typ, b, c.p) IN IF ~IsOk(pp) THEN pp ELSE
        OK([t |-> h.typ, code |-> Lookup(RCTable(h.typ), c.v), props |-> pp.v.props], pp.p)

ParseBody(fam, h, b, p) ==
    CASE h.typ = "Connect" -> ParseConnect(fam, b, p)
      [] h.typ = "Connack" -> ParseConnack(fam, b, p)
      [] h.typ = "Publish" -> ParsePublish(fam, h, b, p)
      [] h.typ \in {"Puback", "Pubrec", "Pubrel", "Pubcomp"} -> ParseAck(fam, h, b, p)
      [] h.typ = "Subscribe" -> ParseSubscribe(fam, "sub", h, b, p)
      [] h.typ = "Unsubscribe" -> ParseSubscribe(fam, "unsub", h, b, p)
      [] h.typ = "Suback" -> ParseSuback(fam, h, b, p)
      [] h.typ = "Unsuback" -> IF fam = "v3" THEN ParseAck(fam, h, b, p) ELSE ParseSuback(fam, h, b, p)
      [] h.typ \in {"Pingreq", "Pingresp"} -> OK([t |-> h.typ], p)
      [] h.typ = "Disconnect" -> IF fam = "v3" THEN OK([t |-> "Disconnect"], p) ELSE ParseDisconnectAuth(h, b, p)
      [] h.typ = "Auth" -> ParseDisconnectAuth(h, b, p)

\* ------------------------------------------------------------------------------------------------
\* the two framings
\* types that have no body at all in this family
Bodyless(fam, typ) == typ \in {"Pingreq", "Pingresp"} \/ (fam = "v3" /\ typ = "Disconnect")

\* Lenient (blocking / async): the body decoder reads on into whatever follows; running out of input
\* is "need" (blocking: Ok(None); async: an error recognised by is_eof()).  val.used = bytes consumed.
LenientParse(fam, s) ==
    LET h == ParseHeader(fam, s) IN IF ~IsOk(h) THEN h ELSE
    LET r == ParseBody(fam, h.v, s, h.p) IN IF ~IsOk(r) THEN r ELSE
    [st |-> "ok", v |-> r.v, p |-> r.p, used |-> r.p - 1]

\* end of the frame that starts the byte string: header width + declared remaining length
FrameEnd(fam, s) == LET h == ParseHeader(fam, s) IN h.p - 1 + h.v.rl
StartsWithCompleteFrame(fam, s) ==
    LET d == DecVarIntAt(s, 2) IN Len(s) >= 2 /\ d.st = "ok" /\ Len(s) >= 1 + d.w + d.val

\* Strict (poll): exactly the declared body is handed to the body decoder; an inner end-of-input and
\* leftover bytes are remaining-length errors; a body-less type that declares a body likewise.
\* s must start with a complete frame (header errors need only the header).
StrictParse(fam, s) ==
    LET h == ParseHeader(fam, s) IN IF ~IsOk(h) THEN h ELSE
    LET rl == h.v.rl
        total == h.p - 1 + rl
    IN  IF Bodyless(fam, h.v.typ) \/ (h.v.typ \in {"Disconnect", "Auth"} /\ rl = 0) THEN
            (IF rl # 0 THEN IRL ELSE
             LET r == ParseBody(fam, h.v, <<>>, 1) IN [st |-> "ok", v |-> r.v, p |-> total + 1, used |-> total])
        ELSE IF rl = 0 THEN IRL
        ELSE IF Len(s) < total THEN NEED
        ELSE LET body == SubSeq(s, h.p, total)
                 r == ParseBody(fam, h.v, body, 1)
             IN  IF r.st = "need" THEN IRL
                 ELSE IF r.st = "err" THEN r
                 ELSE IF r.p # rl + 1 THEN IRL
                 ELSE [st |-> "ok", v |-> r.v, p |-> total + 1, used |-> total]

\* ------------------------------------------------------------------------------------------------
\* the codec's valid domain (C01): what can be encoded and must survive the round trip
TextOk(s) == Len(s) <= 65535 /\ Utf8Ok(s)
BinOk(s)  == Len(s) <= 65535
OptAll(o, P(_)) == o = <<>> \/ P(o[1])
UsersOk(us) == \A i \in 1..Len(us) : TextOk(us[i][1]) /\ TextOk(us[i][2])
PropValueOk(pr, v) ==
    CASE pr.ty = "bool" -> v \in BOOLEAN
      [] pr.ty = "qos01" -> v \in {0, 1}
      [] pr.ty = "u16" -> v \in 0..65535
      [] pr.ty = "u32" -> Len(v) = 4
      [] pr.ty = "str" -> TextOk(v)
      [] pr.ty = "topic" -> TextOk(v) /\ TopicNameOk(v)
      [] pr.ty = "bin" -> BinOk(v)
      [] pr.ty = "varint" -> v \in 0..MaxVarInt
PropsOk(set, props) ==
    /\ DOMAIN props = PropKeys(set) \cup {"user"}
    /\ \A k \in PropKeys(set) : props[k] = <<>> \/ PropValueOk(PropByKey(k), props[k][1])
    /\ UsersOk(props.user)
PidOk(n) == n \in 1..65535
WillOk(fam, w) ==
    /\ w.qos \in 0..2 /\ TextOk(w.topic) /\ TopicNameOk(w.topic)
    /\ IF fam = "v3" THEN BinOk(w.message)
       ELSE BinOk(w.payload) /\ PropsOk("Will", w.props) /\ (w.props.pfi = <<TRUE>> => Utf8Ok(w.payload))
ValidBody(fam, p) ==
    CASE p.t = "Connect" ->
            /\ (IF fam = "v3" THEN p.protocol \in {"V310", "V311"} ELSE p.protocol = "V500")
            /\ TextOk(p.client_id) /\ OptAll(p.username, TextOk) /\ OptAll(p.password, BinOk)
            /\ (p.will = <<>> \/ WillOk(fam, p.will[1]))
            /\ (fam = "v5" => PropsOk("Connect", p.props))
      [] p.t = "Connack" -> fam = "v5" => PropsOk("Connack", p.props)
      [] p.t = "Publish" ->
            /\ TextOk(p.topic) /\ TopicNameOk(p.topic)
            /\ (IF p.qos = 0 THEN p.pid = <<>> ELSE Len(p.pid) = 1 /\ PidOk(p.pid[1]))
            /\ (fam = "v5" => PropsOk("Publish", p.props) /\ (p.props.pfi = <<TRUE>> => Utf8Ok(p.payload)))
      [] p.t \in {"Puback", "Pubrec", "Pubrel", "Pubcomp"} -> PidOk(p.pid) /\ (fam = "v5" => PropsOk(p.t, p.props))
      [] p.t = "Subscribe" ->
            /\ PidOk(p.pid) /\ Len(p.topics) >= 1
            /\ \A i \in 1..Len(p.topics) : TextOk(p.topics[i].filter) /\ TopicFilterOk(p.topics[i].filter)
            /\ (fam = "v5" => PropsOk("Subscribe", p.props))
      [] p.t = "Unsubscribe" ->
            /\ PidOk(p.pid) /\ Len(p.topics) >= 1
            /\ \A i \in 1..Len(p.topics) : TextOk(p.topics[i]) /\ TopicFilterOk(p.topics[i])
            /\ (fam = "v5" => PropsOk("Unsubscribe", p.props))
      [] p.t = "Suback" -> PidOk(p.pid) /\ (fam = "v5" => PropsOk("Suback", p.props))
      [] p.t = "Unsuback" -> PidOk(p.pid) /\ (fam = "v5" => PropsOk("Unsuback", p.props))
      [] p.t \in {"Pingreq", "Pingresp"} -> TRUE
      [] p.t = "Disconnect" -> fam = "v5" => PropsOk("Disconnect", p.props)
      [] p.t = "Auth" -> fam = "v5" /\ PropsOk("Auth", p.props)
ValidPacket(fam, p) == ValidBody(fam, p) /\ Len(EncodeBody(fam, p)) <= MaxVarInt
=============================================================================
