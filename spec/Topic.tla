-------------------------------- MODULE Topic --------------------------------
(***************************************************************************)
(* Topic names and topic filters, declaratively, from MQTT v3.1.1 / v5.0   *)
(* section 4.7 (Topic Names and Topic Filters) and v5.0 section 4.8.2      *)
(* (Shared Subscriptions).  Strings are UTF-8 byte sequences; all the      *)
(* characters the rules mention ('/', '+', '#', '$', NUL) are ASCII, and   *)
(* no byte of a multi-byte UTF-8 character is below 0x80, so the rules can *)
(* be stated on bytes.                                                     *)
(*                                                                         *)
(*  4.7.3  all Topic Names and Topic Filters are at least one character    *)
(*         long [MQTT-4.7.3-1] (the library lets the empty topic NAME      *)
(*         through because of v5 topic aliases: pinned leniency L6),       *)
(*         MUST NOT include U+0000 [MQTT-4.7.3-2], MUST NOT encode to more *)
(*         than 65,535 bytes [MQTT-4.7.3-3].                               *)
(*  4.7.1.2 '#' MUST be the last character, either on its own or following *)
(*         a topic level separator [MQTT-4.7.1-1].                         *)
(*  4.7.1.3 '+' can be used at any level, but it MUST occupy an entire     *)
(*         level of the filter [MQTT-4.7.1-2].                             *)
(*  4.7.1.1 wildcard characters MUST NOT be used within a Topic Name       *)
(*         [MQTT-3.3.2-2].                                                 *)
(*  4.8.2  $share/{ShareName}/{filter}: ShareName MUST NOT contain '/',    *)
(*         '+' or '#', is at least one character long [MQTT-4.8.2-1] and   *)
(*         MUST be followed by '/' and a Topic Filter [MQTT-4.8.2-2].      *)
(***************************************************************************)
EXTENDS Bytes

SLASH == 47   PLUS == 43   HASH == 35   DOLLAR == 36   NUL == 0
SharePrefix == <<36, 115, 104, 97, 114, 101, 47>>          \* "$share/"
SysPrefix   == <<36, 83, 89, 83, 47>>                      \* "$SYS/"
MaxTextLen  == 65535

TopicNameOk(b) ==
    /\ Len(b) <= MaxTextLen
    /\ \A i \in 1..Len(b) : b[i] \notin {NUL, PLUS, HASH}

WildcardsOk(b) ==
    /\ \A i \in 1..Len(b) : b[i] = HASH => /\ i = Len(b)
                                            /\ (i = 1 \/ b[i - 1] = SLASH)
    /\ \A i \in 1..Len(b) : b[i] = PLUS => /\ (i = 1 \/ b[i - 1] = SLASH)
                                            /\ (i = Len(b) \/ b[i + 1] = SLASH)

IsShareShaped(b) == StartsWith(b, SharePrefix)
\* position (1-based) of the '/' that ends the share name: the first '/' after "$share/"; 0 if none
ShareSep(b) ==
    LET cand == {j \in 8..Len(b) : b[j] = SLASH}
    IN IF cand = {} THEN 0 ELSE CHOOSE j \in cand : \A k \in cand : j <= k
ShareOk(b) ==
    LET j == ShareSep(b) IN
    /\ j > 8                                                   \* a separator exists and the name is not empty
    /\ \A k \in 8..(j - 1) : b[k] \notin {PLUS, HASH}          \* no wildcard in the share name
    /\ j < Len(b)                                              \* a non-empty filter follows

TopicFilterOk(b) ==
    /\ Len(b) \in 1..MaxTextLen
    /\ \A i \in 1..Len(b) : b[i] # NUL
    /\ WildcardsOk(b)
    /\ (IsShareShaped(b) => ShareOk(b))

\* the unique reading "$share/" name "/" filter of an accepted shared filter
IsShared(b)    == IsShareShaped(b) /\ TopicFilterOk(b)
ShareName(b)   == SubSeq(b, 8, ShareSep(b) - 1)
ShareFilter(b) == SubSeq(b, ShareSep(b) + 1, Len(b))
\* the byte index (0-based) of the separator, as an implementation would cache it; 0 = not shared
ShareSepIndex0(b) == IF IsShared(b) THEN ShareSep(b) - 1 ELSE 0

NameIsShared(b) == StartsWith(b, SharePrefix)
NameIsSys(b)    == StartsWith(b, SysPrefix)
=============================================================================
