------------------------------- MODULE Encoder -------------------------------
(***************************************************************************)
(* The encoder entry points as transition systems over a sink.             *)
(*                                                                         *)
(*  async   encode_async = encode() + write_all: the whole encoding enc is *)
(*          offered as buf[off..]; the sink accepts k >= 1 bytes, answers  *)
(*          Pending (the poll returns not-ready and is retried), accepts 0 *)
(*          bytes (=> WriteZero), or fails with a kind.                    *)
(*  stream  Encodable::encode streams the body as a sequence of write_all  *)
(*          calls (one per field piece) into a blocking io::Write that     *)
(*          accepts k >= 1 bytes per call, accepts 0, or fails.            *)
(*                                                                         *)
(* C09: whatever the sink does, on success it holds exactly enc; C14: on   *)
(* failure the error carries the sink's kind (WriteZero for a zero-length  *)
(* write) and the sink holds a strict prefix of enc.                       *)
(*                                                                         *)
(* The sink is a socket, not a Vec: a write may be VECTORED (the sink      *)
(* takes k bytes across the slices it is offered - at this level the same  *)
(* as Accept(k) on the bytes not yet written, wherever the slices are      *)
(* cut), and after a write fault the connection is dead: flushing or       *)
(* shutting it down fails with ANOTHER kind (FlushAfterFault).  The        *)
(* encoder reports the FIRST fault (variable fault), never what a later    *)
(* flush said.  Several encodings may be in flight on one thread, each     *)
(* with its own sink: the state of a job is (job, piece, off) and nothing  *)
(* else, so suspending one at a Pending and running another changes        *)
(* nothing (bound to the code by the Interleave events of C09).            *)
(***************************************************************************)
EXTENDS Wire

CONSTANTS Encs,            \* set of <<mode, bytes, pieces>>: mode "async" | "stream", pieces = write_all arguments
          Kinds
VARIABLES job, piece, off, sink, lastW, ret, res, fault
evars == <<job, piece, off, sink, lastW, ret, res, fault>>

Mode == job[1]
Target == job[2]
Pieces == job[3]
Cur == Pieces[piece]                    \* the slice given to the current write_all

EInit == job \in Encs /\ piece = 1 /\ off = 0 /\ sink = <<>> /\ lastW = "none" /\ ret = "none" /\ res = "run"
         /\ fault = "none"
Running == res = "run"

\* the current write_all is complete: next piece, or done
Advance(noff) ==
    IF noff < Len(Cur) THEN piece' = piece /\ off' = noff /\ res' = res /\ ret' = "none"
    ELSE IF piece < Len(Pieces) THEN piece' = piece + 1 /\ off' = 0 /\ res' = res /\ ret' = "none"
    ELSE piece' = piece /\ off' = noff /\ res' = "ok" /\ ret' = "ready"

Accept(k) ==
    /\ Running /\ piece <= Len(Pieces) /\ k >= 1 /\ k <= Len(Cur) - off
    /\ sink' = sink \o SubSeq(Cur, off + 1, off + k)
    /\ lastW' = "accept" /\ Advance(off + k) /\ UNCHANGED <<job, fault>>
\* an empty piece is a write_all of zero bytes: nothing is offered to the sink
SkipEmpty ==
    /\ Running /\ piece <= Len(Pieces) /\ Len(Cur) = 0
    /\ Advance(0) /\ UNCHANGED <<job, sink, lastW, fault>>
SinkPending == /\ Running /\ Mode = "async" /\ Len(Cur) > off
               /\ lastW' = "pending" /\ ret' = "pending" /\ UNCHANGED <<job, piece, off, sink, res, fault>>
SinkZero    == /\ Running /\ Len(Cur) > off
               /\ lastW' = "zero" /\ ret' = "ready" /\ res' = "WriteZero" /\ fault' = "WriteZero"
               /\ UNCHANGED <<job, piece, off, sink>>
SinkFail(k) == /\ Running /\ Len(Cur) > off
               /\ lastW' = "fail" /\ ret' = "ready" /\ res' = k /\ fault' = k /\ UNCHANGED <<job, piece, off, sink>>
\* the connection is dead after the fault: a flush / shutdown of the sink fails with whatever kind; it is not the
\* encoder's result
FlushAfterFault == /\ fault # "none" /\ lastW' = "flushfail"
                   /\ UNCHANGED <<job, piece, off, sink, ret, res, fault>>

ENext == (\E k \in 1..40 : Accept(k)) \/ SkipEmpty \/ SinkPending \/ SinkZero \/ (\E k \in Kinds : SinkFail(k))
         \/ FlushAfterFault
ESpec == EInit /\ [][ENext]_evars
EFair == ESpec /\ WF_evars((\E k \in 1..40 : Accept(k)) \/ SkipEmpty)

PrefixAlways  == Len(sink) <= Len(Target) /\ sink = SubSeq(Target, 1, Len(sink))
OkMeansAll    == res = "ok" => sink = Target
FailKeepsKind == (res \notin {"run", "ok"}) =>
                    /\ Len(sink) < Len(Target)
                    /\ (lastW = "zero" => res = "WriteZero")
                    /\ (lastW = "fail" => res \in Kinds)
                    /\ res = fault                          \* the first fault, whatever a later flush answered
PendingOnlyIfSinkDid == ret = "pending" => lastW = "pending"
PiecesAreTheTarget == FlattenSeq(Pieces) = Target
Finishes == <>(res # "run")
=============================================================================
