------------------------------- MODULE Encoder -------------------------------
(***************************************************************************)
(* The encoder entry points as transition systems over a sink.             *)
(*                                                                         *)
(*  async   encode_async = encode() + write_all: the whole encoding enc is *)
(*          offered as buf[off..]; the sink accepts k >= 1 bytes, answers  *)
(*          Pending (the poll returns not-ready and is retried), accepts 0 *)
(*          bytes (=> WriteZero), or fails with a kind.                    *)
(*  stream  Encodable::encode streams the body as a sequence of write_all  *)
(*          calls (one per field piece) into a blocking io::Write that     *)
(*          accepts k >= 1 bytes per call, accepts 0, or fails.            *)
(*                                                                         *)
(* C09: whatever the sink does, on success it holds exactly enc; C14: on   *)
(* failure the error carries the sink's kind (WriteZero for a zero-length  *)
(* write) and the sink holds a strict prefix of enc.                       *)
(***************************************************************************)
EXTENDS Wire

CONSTANTS Encs,            \* set of <<mode, bytes, pieces>>: mode "async" | "stream", pieces = write_all arguments
          Kinds
VARIABLES job, piece, off, sink, lastW, ret, res
evars == <<job, piece, off, sink, lastW, ret, res>>

Mode == job[1]
Target == job[2]
Pieces == job[3]
Cur == Pieces[piece]                    \* the slice given to the current write_all

EInit == job \in Encs /\ piece = 1 /\ off = 0 /\ sink = <<>> /\ lastW = "none" /\ ret = "none" /\ res = "run"
Running == res = "run"

\* the current write_all is complete: next piece, or done
Advance(noff) ==
    IF noff < Len(Cur) THEN piece' = piece /\ off' = noff /\ res' = res /\ ret' = "none"
    ELSE IF piece < Len(Pieces) THEN piece' = piece + 1 /\ off' = 0 /\ res' = res /\ ret' = "none"
    ELSE piece' = piece /\ off' = noff /\ res' = "ok" /\ ret' = "ready"

Accept(k) ==
    /\ Running /\ piece <= Len(Pieces) /\ k >= 1 /\ k <= Len(Cur) - off
    /\ sink' = sink \o SubSeq(Cur, off + 1, off + k)
    /\ lastW' = "accept" /\ Advance(off + k) /\ UNCHANGED job
\* an empty piece is a write_all of zero bytes: nothing is offered to the sink
SkipEmpty ==
    /\ Running /\ piece <= Len(Pieces) /\ Len(Cur) = 0
    /\ Advance(0) /\ UNCHANGED <<job, sink, lastW>>
SinkPending == /\ Running /\ Mode = "async" /\ Len(Cur) > off
               /\ lastW' = "pending" /\ ret' = "pending" /\ UNCHANGED <<job, piece, off, sink, res>>
SinkZero    == /\ Running /\ Len(Cur) > off
               /\ lastW' = "zero" /\ ret' = "ready" /\ res' = "WriteZero" /\ UNCHANGED <<job, piece, off, sink>>
SinkFail(k) == /\ Running /\ Len(Cur) > off
               /\ lastW' = "fail" /\ ret' = "ready" /\ res' = k /\ UNCHANGED <<job, piece, off, sink>>

ENext == (\E k \in 1..40 : Accept(k)) \/ SkipEmpty \/ SinkPending \/ SinkZero \/ \E k \in Kinds : SinkFail(k)
ESpec == EInit /\ [][ENext]_evars
EFair == ESpec /\ WF_evars((\E k \in 1..40 : Accept(k)) \/ SkipEmpty)

PrefixAlways  == Len(sink) <= Len(Target) /\ sink = SubSeq(Target, 1, Len(sink))
OkMeansAll    == res = "ok" => sink = Target
FailKeepsKind == (res \notin {"run", "ok"}) =>
                    /\ Len(sink) < Len(Target)
                    /\ (lastW = "zero" => res = "WriteZero")
                    /\ (lastW = "fail" => res \in Kinds)
PendingOnlyIfSinkDid == ret = "pending" => lastW = "pending"
PiecesAreTheTarget == FlattenSeq(Pieces) = Target
Finishes == <>(res # "run")
=============================================================================
