------------------------------- MODULE PollAbs -------------------------------
(***************************************************************************)
(* The poll-based decoder at the level of its statement (C05, C07, C14),   *)
(* free of any representation: the only state is how much of the stream    *)
(* the transport has delivered (pos), what the transport answered last     *)
(* (lastT), what the current poll returned (ret) and the final output      *)
(* (out).  Everything else is a FUNCTION of the delivered prefix:          *)
(*                                                                         *)
(*   MinFrameEnd(prefix)  the earliest possible end of the frame           *)
(*   Complete(prefix)     the frame is completely delivered (or its header *)
(*                        already decides the outcome)                     *)
(*   Result(prefix)       the strict parse of the frame                    *)
(*                                                                         *)
(* Environment (transport) actions: Deliver(k) with pos + k within the     *)
(* frame, Pending (the poll returns not-ready; the future may be dropped   *)
(* and re-created: no state to lose), Eof, Fail(kind).                     *)
(***************************************************************************)
EXTENDS Wire

CONSTANTS Fam, Streams, Kinds
VARIABLES stream, pos, lastT, ret, out
avars == <<stream, pos, lastT, ret, out>>

NoOut == [st |-> "none"]
EofErr == ERR("IoError", <<"UnexpectedEof">>)
IoErrK(k) == ERR("IoError", <<k>>)
Prefix == SubSeq(stream, 1, pos)

MinFrameEnd(d) ==
    IF Len(d) < 2 THEN 2
    ELSE LET v == DecVarIntAt(d, 2) IN
         CASE v.st = "ok" -> 1 + v.w + v.val [] v.st = "need" -> Len(d) + 1 [] v.st = "err" -> Len(d)

\* the outcome is decided as soon as StrictParse of the delivered prefix no longer says "need"
Result(d) == StrictParse(Fam, d)
Complete(d) == Len(d) >= 1 /\ Result(d).st # "need"

\* what one uninterrupted read of the whole stream yields
OneShot(s) == LET r == StrictParse(Fam, s) IN IF r.st = "need" THEN EofErr ELSE r

AInit == stream \in Streams /\ pos = 0 /\ lastT = "none" /\ ret = "none" /\ out = NoOut
Running == out = NoOut

Deliver(k) ==
    /\ Running /\ k >= 1 /\ pos + k <= Len(stream)
    /\ pos + k <= MinFrameEnd(Prefix)                       \* never beyond the end of the current frame
    /\ pos' = pos + k /\ lastT' = "Data"
    /\ LET d == SubSeq(stream, 1, pos + k) IN
       IF Complete(d) THEN out' = Result(d) /\ ret' = "ready" ELSE out' = out /\ ret' = "none"
    /\ UNCHANGED stream
TPending == Running /\ lastT' = "Pending" /\ ret' = "pending" /\ UNCHANGED <<stream, pos, out>>
TEof     == Running /\ pos = Len(stream) /\ lastT' = "Eof" /\ ret' = "ready" /\ out' = EofErr /\ UNCHANGED <<stream, pos>>
TFail(kind) == Running /\ lastT' = "Fail" /\ ret' = "ready" /\ out' = IoErrK(kind) /\ UNCHANGED <<stream, pos>>

ANext == (\E k \in 1..5 : Deliver(k)) \/ (\E k \in 6..70 : Deliver(k)) \/ TPending \/ TEof \/ \E kind \in Kinds : TFail(kind)
ASpec == AInit /\ [][ANext]_avars
\* the same next-state relation with the chunk size read off the step (pos' - pos) instead of guessed:
\* equivalent to ANext, and what a refinement check evaluates once per transition instead of 70 times
ANextChk == Deliver(pos' - pos) \/ TPending \/ TEof \/ \E kind \in Kinds : TFail(kind)
ASpecChk == AInit /\ [][ANextChk]_avars

\* ---- the four clauses of C05 (and C07 / C14's poll clauses), as properties of the abstract system
ScheduleIndependent == (out # NoOut /\ lastT # "Fail" /\ lastT # "Eof") => out = OneShot(stream)
EofOnlyAtEnd        == lastT = "Eof" => out = EofErr /\ pos = Len(stream) /\ OneShot(stream) = EofErr
PendingOnlyIfTransportDid == ret = "pending" => lastT = "Pending"
ConsumedIsReported  == (out # NoOut /\ out.st = "ok") => pos = out.used
WithinStream        == pos <= Len(stream)
FailKeepsKind       == lastT = "Fail" => out.st = "err" /\ out.e = "IoError" /\ out.a[1] \in Kinds
=============================================================================
