------------------------------- MODULE VarInt -------------------------------
(***************************************************************************)
(* MQTT variable byte integer (v3.1.1 section 2.2.3, v5.0 section 1.5.5)   *)
(* and the fixed-header length arithmetic built on it.                      *)
(*                                                                         *)
(* Two definitions of the encoder are given on purpose: the loop of the    *)
(* standard's non-normative algorithm (EncLoop) and a closed form          *)
(* (EncVarInt).  MC_VarInt checks that they coincide; Ap_VarInt proves the *)
(* arithmetic laws over the whole domain 0..268,435,455.                   *)
(***************************************************************************)
EXTENDS Naturals, Sequences

MaxVarInt == 268435455          \* 128^4 - 1

Pow128(k) == CASE k = 0 -> 1 [] k = 1 -> 128 [] k = 2 -> 16384 [] k = 3 -> 2097152 [] k = 4 -> 268435456

\* -- encoder, as the standard's loop: "do digit = X MOD 128; X = X DIV 128; if X > 0 digit |= 128 while X > 0"
RECURSIVE EncLoop(_)
EncLoop(n) == IF n < 128 THEN <<n>> ELSE <<128 + (n % 128)>> \o EncLoop(n \div 128)

\* -- closed form
VarIntLen(n) == IF n < 128 THEN 1 ELSE IF n < 16384 THEN 2 ELSE IF n < 2097152 THEN 3 ELSE 4
Digit(n, k) == (n \div Pow128(k)) % 128                      \* k-th base-128 digit, k = 0 least significant
EncVarInt(n) == [k \in 1..VarIntLen(n) |->
                    IF k < VarIntLen(n) THEN 128 + Digit(n, k - 1) ELSE Digit(n, k - 1)]

\* -- a byte string is a complete, minimal encoding
IsVarInt(s) == /\ Len(s) \in 1..4
               /\ \A i \in 1..(Len(s) - 1) : s[i] >= 128
               /\ s[Len(s)] < 128
Value(s) == LET D(i) == IF i <= Len(s) THEN (s[i] % 128) * Pow128(i - 1) ELSE 0
            IN D(1) + D(2) + D(3) + D(4)
Minimal(s) == IsVarInt(s) /\ (Len(s) > 1 => s[Len(s)] # 0)

(***************************************************************************)
(* Reader.  DecVarIntAt(b, p) reads a variable byte integer from b at the  *)
(* 1-based position p.  st = "ok": value, width, next position;            *)
(* st = "need": the input ended before the integer did;                    *)
(* st = "err": a fourth byte with the continuation bit (more than 4 bytes).*)
(* The reader consumes the bytes it inspects, so a "need" after k          *)
(* continuation bytes has consumed k bytes.                                *)
(***************************************************************************)
DecVarIntAt(b, p) ==
    LET avail == Len(b) - p + 1
        Stop(i) == i < avail /\ b[p + i] < 128                 \* byte i (0-based) exists and ends the integer
        Cont(i) == i < avail /\ b[p + i] >= 128
    IN  IF Stop(0) THEN [st |-> "ok", val |-> b[p], w |-> 1, next |-> p + 1]
        ELSE IF Cont(0) /\ Stop(1) THEN
            [st |-> "ok", val |-> (b[p] % 128) + 128 * b[p+1], w |-> 2, next |-> p + 2]
        ELSE IF Cont(0) /\ Cont(1) /\ Stop(2) THEN
            [st |-> "ok", val |-> (b[p] % 128) + 128 * (b[p+1] % 128) + 16384 * b[p+2], w |-> 3, next |-> p + 3]
        ELSE IF Cont(0) /\ Cont(1) /\ Cont(2) /\ Stop(3) THEN
            [st |-> "ok", val |-> (b[p] % 128) + 128 * (b[p+1] % 128) + 16384 * (b[p+2] % 128) + 2097152 * b[p+3],
             w |-> 4, next |-> p + 4]
        ELSE IF Cont(0) /\ Cont(1) /\ Cont(2) /\ Cont(3) THEN [st |-> "err", next |-> p + 4]
        ELSE [st |-> "need", next |-> Len(b) + 1]

(***************************************************************************)
(* Fixed-header arithmetic: a packet is 1 control byte, the variable byte  *)
(* integer of its remaining length, and that many bytes.                   *)
(***************************************************************************)
TotalLen(n) == 1 + VarIntLen(n) + n
ValidTotal(t) == \E h \in 2..5 : t >= h /\ t - h <= MaxVarInt /\ 1 + VarIntLen(t - h) = h
HeaderLen(t) == CHOOSE h \in 2..5 : t >= h /\ 1 + VarIntLen(t - h) = h       \* for ValidTotal(t)
RemainingLen(t) == t - HeaderLen(t)

\* the threshold form used by implementations; MC_VarInt/Ap_VarInt show it equals HeaderLen on valid totals
HeaderLenThreshold(t) == IF t < 130 THEN 2 ELSE IF t < 16387 THEN 3 ELSE IF t < 2097156 THEN 4 ELSE 5
=============================================================================
