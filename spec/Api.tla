--------------------------------- MODULE Api ---------------------------------
(***************************************************************************)
(* The rest of the public surface of the codec, beyond the twenty listed   *)
(* properties: what the constructors default to, what the type tags and    *)
(* conversions return, how versions and identifiers print.  These are the  *)
(* facts a caller that builds packets by hand relies on; they are pinned   *)
(* here as a specification (abstract packets as in Wire.tla) and bound to  *)
(* the code by Trace_Api (bin/check EXTRA).                                *)
(***************************************************************************)
EXTENDS Wire

\* ---- constructors: every field the caller does not pass takes the value below
NewConnect(fam, id, ka) ==
    LET base == [t |-> "Connect", protocol |-> IF fam = "v3" THEN "V311" ELSE "V500", clean |-> TRUE, keep_alive |-> ka,
                 client_id |-> id, will |-> <<>>, username |-> <<>>, password |-> <<>>]
    IN IF fam = "v5" THEN base @@ [props |-> EmptyProps("Connect")] ELSE base
NewWill(fam, qos, topic, msg) ==
    IF fam = "v3" THEN [qos |-> qos, retain |-> FALSE, topic |-> topic, message |-> msg]
    ELSE [qos |-> qos, retain |-> FALSE, props |-> EmptyProps("Will"), topic |-> topic, payload |-> msg]
NewPublish(fam, qos, pid, topic, payload) ==
    LET base == [t |-> "Publish", dup |-> FALSE, retain |-> FALSE, qos |-> qos, pid |-> pid, topic |-> topic,
                 payload |-> payload]
    IN IF fam = "v5" THEN base @@ [props |-> EmptyProps("Publish")] ELSE base
NewConnack(fam, sp, code) ==
    IF fam = "v3" THEN [t |-> "Connack", sp |-> sp, code |-> code]
    ELSE [t |-> "Connack", sp |-> sp, code |-> code, props |-> EmptyProps("Connack")]
NewAck(typ, pid, code) == [t |-> typ, pid |-> pid, code |-> code, props |-> EmptyProps(typ)]     \* v5 PUBACK .. PUBCOMP
NewCoded(typ, code) == [t |-> typ, code |-> code, props |-> EmptyProps(typ)]                      \* v5 DISCONNECT, AUTH
\* SubscriptionOptions::new(qos): note retain-as-published defaults to TRUE
NewSubOptions(qos) == [qos |-> qos, nl |-> FALSE, rap |-> TRUE, rh |-> "SendAtSubscribe"]
DefaultPid == 1

\* ---- tags and conversions
TypeOf(p) == p.t
QosToSubRC(q) == CASE q = 0 -> "MaxLevel0" [] q = 1 -> "MaxLevel1" [] q = 2 -> "MaxLevel2"
ProtocolDisplay(pv) == CASE pv = "V310" -> "v3.1" [] pv = "V311" -> "v3.1.1" [] pv = "V500" -> "v5.0"
ProtocolEncodeLen(pv) == 2 + Len(ProtoPair(pv)[1]) + 1
=============================================================================
