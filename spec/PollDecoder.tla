----------------------------- MODULE PollDecoder -----------------------------
(***************************************************************************)
(* The poll-based decoder as implemented (src/common/poll.rs), one action  *)
(* per branch of GenericPollPacket::poll.  All progress lives in the       *)
(* caller-held state:                                                      *)
(*     Header { control_byte, var_idx, var_int }                           *)
(*     Body   { header, total, idx, buf }                                  *)
(* The decoder reads ONE byte at a time while in the header and reads into *)
(* buf[idx..] while in the body; when the body is full the body decoder    *)
(* runs on exactly those bytes (inner end-of-input and leftover bytes      *)
(* become InvalidRemainingLength).  A future dropped at a Pending loses    *)
(* nothing (DropFuture changes no variable but fut).                       *)
(*                                                                         *)
(* MC_Poll checks the invariants below and that this system REFINES        *)
(* PollAbs (the representation-free statement of C05).                     *)
(***************************************************************************)
EXTENDS Wire

CONSTANTS Fam, Streams, Kinds
VARIABLES stream, pos,                              \* transport: the stream and how much of it was delivered
          phase, cb, varIdx, varInt,                \* Header state (cb = <<>> until the control byte arrived)
          hdr, total, idx, buf,                     \* Body state (buf: -1 = uninitialised cell)
          lastT, ret, out, fut                      \* observations: last transport answer, poll result, output, future generation parity
vars == <<stream, pos, phase, cb, varIdx, varInt, hdr, total, idx, buf, lastT, ret, out, fut>>

NoOut == [st |-> "none"]
NoHdr == [typ |-> "none"]
EofErr == ERR("IoError", <<"UnexpectedEof">>)
IoErrK(k) == ERR("IoError", <<k>>)

Init == /\ stream \in Streams /\ pos = 0
        /\ phase = "Hdr" /\ cb = <<>> /\ varIdx = 0 /\ varInt = 0
        /\ hdr = NoHdr /\ total = 0 /\ idx = 0 /\ buf = <<>>
        /\ lastT = "none" /\ ret = "none" /\ out = NoOut /\ fut = 0

Avail == Len(stream) - pos
\* capacity the decoder offers to the transport in its next read
Cap == IF phase = "Hdr" THEN 1 ELSE Len(buf) - idx

Finish(o) == phase' = "Done" /\ out' = o /\ ret' = "ready"

\* Header::new_with(control byte, remaining length): type nibble / flag table (both families)
HeaderOf(c, rl, w) ==
    LET t == c \div 16
        fl == c % 16
    IN  IF t = 0 \/ (t = 15 /\ Fam = "v3") THEN ERR("InvalidHeader", <<>>)
        ELSE IF t = 3 THEN (IF (fl \div 2) % 4 = 3 THEN ERR("InvalidQos", <<3>>)
                            ELSE OK([typ |-> "Publish", dup |-> fl >= 8, qos |-> (fl \div 2) % 4, retain |-> fl % 2 = 1,
                                     rl |-> rl, w |-> w], 0))
        ELSE IF fl # RequiredFlags(t) THEN ERR("InvalidHeader", <<>>)
        ELSE OK([typ |-> TypeName(t), dup |-> FALSE, qos |-> 0, retain |-> FALSE, rl |-> rl, w |-> w], 0)

\* the header is complete (control byte c, remaining length rl read in w bytes): table, empty packet, zero length, allocate
HeaderComplete(c, rl, w) ==
    LET h == HeaderOf(c, rl, w) IN
    IF ~IsOk(h) THEN Finish(h) /\ UNCHANGED <<hdr, total, idx, buf>>
    ELSE IF Bodyless(Fam, h.v.typ) \/ (h.v.typ \in {"Disconnect", "Auth"} /\ rl = 0) THEN       \* build_empty_packet
        (IF rl # 0 THEN Finish(IRL)
         ELSE Finish([st |-> "ok", v |-> ParseBody(Fam, h.v, <<>>, 1).v, p |-> 1 + w + 1, used |-> 1 + w]))
        /\ UNCHANGED <<hdr, total, idx, buf>>
    ELSE IF rl = 0 THEN Finish(IRL) /\ UNCHANGED <<hdr, total, idx, buf>>
    ELSE /\ phase' = "Body" /\ hdr' = h.v /\ total' = 1 + w + rl /\ idx' = 0
         /\ buf' = [i \in 1..rl |-> 0 - 1]
         /\ ret' = "none" /\ out' = out

\* one byte arrives while in the header
HdrByte ==
    /\ phase = "Hdr" /\ Avail >= 1
    /\ LET b == stream[pos + 1] IN
       /\ pos' = pos + 1 /\ lastT' = "Data"
       /\ IF cb = <<>> THEN
              /\ cb' = <<b>> /\ ret' = "none"
              /\ UNCHANGED <<phase, varIdx, varInt, hdr, total, idx, buf, out>>
          ELSE
              LET v == varInt + (b % 128) * Pow128(varIdx) IN
              /\ varInt' = v /\ UNCHANGED cb
              /\ IF b < 128 THEN HeaderComplete(cb[1], v, varIdx + 1) /\ UNCHANGED varIdx
                 ELSE IF varIdx < 3 THEN
                      /\ varIdx' = varIdx + 1 /\ ret' = "none"
                      /\ UNCHANGED <<phase, hdr, total, idx, buf, out>>
                 ELSE Finish(ERR("InvalidVarByteInt", <<>>)) /\ UNCHANGED <<varIdx, hdr, total, idx, buf>>
    /\ UNCHANGED <<stream, fut>>

\* k bytes arrive into buf[idx..]
BodyData(k) ==
    /\ phase = "Body" /\ k >= 1 /\ k <= Cap /\ k <= Avail
    /\ pos' = pos + k /\ lastT' = "Data"
    /\ LET nb == [i \in 1..Len(buf) |-> IF i > idx /\ i <= idx + k THEN stream[pos + (i - idx)] ELSE buf[i]] IN
       /\ buf' = nb /\ idx' = idx + k
       /\ IF idx + k = Len(buf) THEN
              LET r == ParseBody(Fam, hdr, nb, 1) IN
              Finish(IF r.st = "need" THEN IRL
                     ELSE IF r.st = "err" THEN r
                     ELSE IF r.p # Len(nb) + 1 THEN IRL
                     ELSE [st |-> "ok", v |-> r.v, p |-> total + 1, used |-> total])
          ELSE phase' = phase /\ out' = out /\ ret' = "none"
    /\ UNCHANGED <<stream, cb, varIdx, varInt, hdr, total, fut>>

TransportPending ==
    /\ phase \in {"Hdr", "Body"}
    /\ lastT' = "Pending" /\ ret' = "pending"
    /\ UNCHANGED <<stream, pos, phase, cb, varIdx, varInt, hdr, total, idx, buf, out, fut>>

\* a ready read of zero bytes: end of stream
TransportEof ==
    /\ phase \in {"Hdr", "Body"} /\ Avail = 0
    /\ lastT' = "Eof" /\ Finish(EofErr)
    /\ UNCHANGED <<stream, pos, cb, varIdx, varInt, hdr, total, idx, buf, fut>>

TransportFail(kind) ==
    /\ phase \in {"Hdr", "Body"}
    /\ lastT' = "Fail" /\ Finish(IoErrK(kind))
    /\ UNCHANGED <<stream, pos, cb, varIdx, varInt, hdr, total, idx, buf, fut>>

\* the future is dropped after a Pending and re-created from the caller-held state: nothing is lost
DropFuture ==
    /\ ret = "pending" /\ fut' = 1 - fut
    /\ UNCHANGED <<stream, pos, phase, cb, varIdx, varInt, hdr, total, idx, buf, lastT, ret, out>>

Next == HdrByte \/ (\E k \in 1..70 : BodyData(k)) \/ TransportPending \/ TransportEof
        \/ (\E kind \in Kinds : TransportFail(kind)) \/ DropFuture
Spec == Init /\ [][Next]_vars
\* a transport that eventually answers something other than Pending
FairSpec == Spec /\ WF_vars(HdrByte \/ (\E k \in 1..70 : BodyData(k)) \/ TransportEof)

\* ---- invariants
TypeOK == /\ pos \in 0..Len(stream) /\ phase \in {"Hdr", "Body", "Done"} /\ varIdx \in 0..3
          /\ idx \in 0..Len(buf)
OneShot(s) == LET r == StrictParse(Fam, s) IN IF r.st = "need" THEN EofErr ELSE r
ScheduleIndependent == (phase = "Done" /\ lastT \notin {"Fail", "Eof"}) => out = OneShot(stream)
EofMeansTruncated   == (phase = "Done" /\ lastT = "Eof") => out = EofErr /\ OneShot(stream) = EofErr
FailKeepsKind       == (phase = "Done" /\ lastT = "Fail") => out.st = "err" /\ out.e = "IoError" /\ out.a[1] \in Kinds
PendingOnlyIfTransportDid == ret = "pending" => lastT = "Pending"
ConsumedIsReported  == (phase = "Done" /\ out.st = "ok") => pos = out.used
\* the capacity offered never reaches beyond the end of the current frame
FrameEndSoFar == LET d == SubSeq(stream, 1, pos) IN
                 IF Len(d) < 2 THEN 2
                 ELSE LET v == DecVarIntAt(d, 2) IN
                      CASE v.st = "ok" -> 1 + v.w + v.val [] v.st = "need" -> Len(d) + 1 [] v.st = "err" -> Len(d)
AsksWithinFrame     == phase \in {"Hdr", "Body"} => pos + Cap <= FrameEndSoFar
\* cells are written front to back; the body is handed to the body decoder only when no cell is uninitialised
BufferDiscipline    == /\ \A i \in 1..Len(buf) : (i <= idx) = (buf[i] # 0 - 1)
                       /\ (phase = "Body" => buf = [i \in 1..Len(buf) |->
                                                      IF i <= idx THEN stream[1 + hdr.w + i] ELSE 0 - 1])
NoUninitExposed     == (phase = "Done" /\ out.st = "ok" /\ Len(buf) > 0) => \A i \in 1..Len(buf) : buf[i] # 0 - 1
HeaderStateIsPrefix == phase = "Hdr" =>
                          /\ (cb = <<>>) = (pos = 0)
                          /\ (pos >= 1 => cb = <<stream[1]>> /\ varIdx = pos - 1
                                          /\ DecVarIntAt(SubSeq(stream, 1, pos), 2).st = "need")
\* C06 at model level: on a stream that starts with a complete frame, acceptance implies the lenient
\* grammar returns the same packet; rejection with an error other than the remaining-length error implies
\* the lenient grammar returns the same error
LenientAgrees == (phase = "Done" /\ lastT \notin {"Fail", "Eof"}) =>
                    LET q == LenientParse(Fam, stream) IN
                    /\ (out.st = "ok" => q.st = "ok" /\ q.v = out.v)
                    /\ (out.st = "err" /\ out.e # "InvalidRemainingLength" => q.st = "err" /\ q.e = out.e /\ q.a = out.a)
Terminates == <>(phase = "Done")

\* ---- refinement: this system implements the statement-level PollAbs
Abs == INSTANCE PollAbs WITH stream <- stream, pos <- pos, lastT <- lastT, ret <- ret,
                             out <- IF phase = "Done" THEN out ELSE [st |-> "none"]
AbsSpec == Abs!ASpecChk
=============================================================================
