------------------------------ MODULE Ap_VarInt ------------------------------
(***************************************************************************)
(* Whole-domain laws of the variable byte integer (N, N2 range over        *)
(* 0..268,435,455), discharged symbolically by Apalache.  Definitions are  *)
(* those of VarInt.tla, restated over integers (digits instead of          *)
(* sequences).                                                             *)
(***************************************************************************)
EXTENDS Integers

CONSTANTS
    \* @type: Int;
    N,
    \* @type: Int;
    N2

MaxVarInt == 268435455
VarIntLen(n) == IF n < 128 THEN 1 ELSE IF n < 16384 THEN 2 ELSE IF n < 2097152 THEN 3 ELSE 4
D0(n) == n % 128
D1(n) == (n \div 128) % 128
D2(n) == (n \div 16384) % 128
D3(n) == (n \div 2097152) % 128
TotalLen(n) == 1 + VarIntLen(n) + n
HeaderLenThreshold(t) == IF t < 130 THEN 2 ELSE IF t < 16387 THEN 3 ELSE IF t < 2097156 THEN 4 ELSE 5

ConstInit == N \in 0..MaxVarInt /\ N2 \in 0..MaxVarInt

VARIABLE
    \* @type: Int;
    dummy
Init == dummy = 0
Next == dummy' = dummy

\* the digits reconstruct the value; digits beyond the width are zero; the top digit of a
\* multi-byte encoding is non-zero (minimality); every digit is a 7-bit value
InvDigits == /\ N = D0(N) + 128 * D1(N) + 16384 * D2(N) + 2097152 * D3(N)
             /\ (VarIntLen(N) < 2 => D1(N) = 0) /\ (VarIntLen(N) < 3 => D2(N) = 0) /\ (VarIntLen(N) < 4 => D3(N) = 0)
             /\ (VarIntLen(N) = 2 => D1(N) > 0) /\ (VarIntLen(N) = 3 => D2(N) > 0) /\ (VarIntLen(N) = 4 => D3(N) > 0)
             /\ D0(N) \in 0..127 /\ D1(N) \in 0..127 /\ D2(N) \in 0..127 /\ D3(N) \in 0..127
\* the standard's loop: the digits of N \div 128 are the digits of N shifted by one, and the
\* width shrinks by one -- the inductive step that makes the loop equal to the closed form
InvLoop == /\ D0(N \div 128) = D1(N) /\ D1(N \div 128) = D2(N) /\ D2(N \div 128) = D3(N)
           /\ (N >= 128 => VarIntLen(N \div 128) = VarIntLen(N) - 1)
InvMonotone == N <= N2 => VarIntLen(N) <= VarIntLen(N2)
InvLengths == /\ HeaderLenThreshold(TotalLen(N)) = 1 + VarIntLen(N)
              /\ TotalLen(N) - HeaderLenThreshold(TotalLen(N)) = N
              /\ (N < N2 => TotalLen(N) < TotalLen(N2))
Inv == InvDigits /\ InvLoop /\ InvMonotone /\ InvLengths
\* negative control: must be refuted ('<= 16384' in the width table)
BadLen(n) == IF n < 128 THEN 1 ELSE IF n <= 16384 THEN 2 ELSE IF n < 2097152 THEN 3 ELSE 4
InvControl == HeaderLenThreshold(1 + BadLen(N) + N) = 1 + BadLen(N)
=============================================================================
