------------------------------- MODULE Ap_Pid -------------------------------
(***************************************************************************)
(* Whole-domain arithmetic laws of the 16-bit packet-identifier ring,      *)
(* discharged symbolically by Apalache (X, U, V are unconstrained          *)
(* constants, ConstInit bounds them; --length=0 checks Inv in the initial  *)
(* state for every admissible constant value).                             *)
(*                                                                         *)
(* Together with MC_Pid (TLC, literal iteration for W = 2..8) these give   *)
(* an induction: Add(x,0) = x and Add(x,u+1) = Step(Add(x,u)), hence       *)
(* Add(x,u) is u steps for every u; AddOvf = Add; SubOvf = Sub;            *)
(* Sub undoes Add.  The definitions are those of Pid.tla with W = 16.      *)
(***************************************************************************)
EXTENDS Integers

CONSTANTS
    \* @type: Int;
    X,
    \* @type: Int;
    U,
    \* @type: Int;
    S,
    \* @type: Int;
    S2

M == 65536
R == 65535

Step(x)     == IF x = R THEN 1 ELSE x + 1
StepBack(x) == IF x = 1 THEN R ELSE x - 1
Add(x, u) == ((x - 1 + u) % R) + 1
Sub(x, u) == ((x - 1 + 2 * R - u) % R) + 1
AddOvf(x, u) == LET s == x + u IN IF s < M THEN s ELSE (s - M) + 1
SubOvf(x, u) == LET d == IF x >= u THEN x - u ELSE x + M - u
                IN IF d = 0 THEN R ELSE IF x >= u THEN d ELSE d - 1

AddKey(s) == ((s - 1) % R) + 1
SubKey(d) == ((d - 1 + 2 * R) % R) + 1

ConstInit == X \in 1..R /\ U \in 0..R /\ S \in (1 - R)..(2 * R) /\ S2 \in (1 - R)..(2 * R)

VARIABLE
    \* @type: Int;
    dummy
Init == dummy = 0
Next == dummy' = dummy

InvRange     == AddOvf(X, U) \in 1..R /\ SubOvf(X, U) \in 1..R
InvAddClosed == AddOvf(X, U) = Add(X, U)
InvSubClosed == SubOvf(X, U) = Sub(X, U)
InvAddBase   == Add(X, 0) = X /\ Sub(X, 0) = X
InvAddStep   == U < R => Add(X, U + 1) = Step(Add(X, U))
InvSubStep   == U < R => Sub(X, U + 1) = StepBack(Sub(X, U))
InvUndo      == SubOvf(AddOvf(X, U), U) = X /\ AddOvf(SubOvf(X, U), U) = X
\* the result depends on x + u (x - u) only, and result - key is monotone (non-increasing) in the key:
\* this is what lets Trace_Pid conclude from the two ends of a run to the whole run
InvKeyed       == Add(X, U) = AddKey(X + U) /\ Sub(X, U) = SubKey(X - U)
InvKeyMonotone == (S <= S2 /\ S >= 1) => AddKey(S) - S >= AddKey(S2) - S2
InvKeyMonotoneSub == (S <= S2 /\ S2 <= R - 1) => SubKey(S) - S >= SubKey(S2) - S2
Inv == InvKeyed /\ InvKeyMonotone /\ InvKeyMonotoneSub /\ InvRange /\ InvAddClosed /\ InvSubClosed /\ InvAddBase /\ InvAddStep /\ InvSubStep /\ InvUndo
\* negative control: must be refuted (the carry correction dropped)
BadAdd(x, u) == LET s == x + u IN IF s < M THEN s ELSE (s - M)
InvControl == BadAdd(X, U) \in 1..R
=============================================================================
