------------------------------- MODULE AsyncAbs -------------------------------
(***************************************************************************)
(* The lenient (async / blocking) decoder at the level of its statement,   *)
(* free of any representation: it pulls bytes from the transport with      *)
(* read_exact calls in the order of Wire.tla's operational parser, so the  *)
(* only state is how much of the stream it has consumed (pos), what the    *)
(* transport answered last (lastT), what the current poll returned (ret)   *)
(* and the final output (out).                                             *)
(*                                                                         *)
(* The outcome is a FUNCTION of the consumed prefix: the decoder goes on   *)
(* reading exactly as long as LenientParse of the consumed prefix says     *)
(* "need"; the first prefix for which it says anything else is the         *)
(* DECISION POINT, and that answer is the result.  Because the decoder is  *)
(* unbuffered, it never consumes a byte beyond the decision point: this is *)
(* what makes back-to-back decoding from one stream (C08) and resuming     *)
(* after UnexpectedProtocol (C13) possible.                                *)
(*                                                                         *)
(* Transport actions: Deliver(k), Pending (the future is simply polled     *)
(* again; unlike the poll decoder it may NOT be dropped: its state lives   *)
(* in the future), Eof, Fail(kind).  The blocking decoder is the same      *)
(* system over a slice: no Pending, no Fail, and Eof reported as           *)
(* "incomplete".                                                           *)
(***************************************************************************)
EXTENDS Wire

CONSTANTS Fam, Streams, Kinds
VARIABLES stream, pos, lastT, ret, out
lvars == <<stream, pos, lastT, ret, out>>

NoOut == [st |-> "none"]
EofErr == ERR("IoError", <<"UnexpectedEof">>)
IoErrK(k) == ERR("IoError", <<k>>)
Pre(s, n) == SubSeq(s, 1, n)
\* (a constant-level table over the stream set: TLC evaluates it once, not once per step)
NeedTab == [s \in Streams |-> [n \in 0..Len(s) |-> LenientParse(Fam, Pre(s, n)).st = "need"]]
Need(s, n) == NeedTab[s][n]

\* the decision point of a stream: the shortest prefix whose parse is decided (Len + 1: never decided)
DecisionTab == [s \in Streams |->
                   IF \A n \in 0..Len(s) : Need(s, n) THEN Len(s) + 1
                   ELSE CHOOSE n \in 0..Len(s) : ~Need(s, n) /\ \A m \in 0..(n - 1) : Need(s, m)]
Decision(s) == DecisionTab[s]
\* what one uninterrupted read of the whole stream yields
OneShot(s) == LET r == LenientParse(Fam, s) IN IF r.st = "need" THEN EofErr ELSE r
\* the blocking wrapper: end of input is "incomplete", everything else as is
Blocking(s) == LET r == OneShot(s) IN IF r = EofErr THEN [st |-> "incomplete"] ELSE r

LInit == stream \in Streams /\ pos = 0 /\ lastT = "none" /\ ret = "none" /\ out = NoOut
Running == out = NoOut

Deliver(k) ==
    /\ Running /\ k >= 1 /\ pos + k <= Len(stream)
    /\ Need(stream, pos)                                      \* it only reads while undecided ...
    /\ pos + k <= Decision(stream)                            \* ... and never beyond the decision point
    /\ pos' = pos + k /\ lastT' = "Data"
    /\ IF Need(stream, pos + k) THEN out' = out /\ ret' = "none"
       ELSE out' = LenientParse(Fam, Pre(stream, pos + k)) /\ ret' = "ready"
    /\ UNCHANGED stream
LPending == Running /\ lastT' = "Pending" /\ ret' = "pending" /\ UNCHANGED <<stream, pos, out>>
LEof     == Running /\ pos = Len(stream) /\ lastT' = "Eof" /\ ret' = "ready" /\ out' = EofErr /\ UNCHANGED <<stream, pos>>
LFail(kind) == Running /\ lastT' = "Fail" /\ ret' = "ready" /\ out' = IoErrK(kind) /\ UNCHANGED <<stream, pos>>

LNext == (\E k \in 1..70 : Deliver(k)) \/ LPending \/ LEof \/ \E kind \in Kinds : LFail(kind)
LSpec == LInit /\ [][LNext]_lvars
LFair == LSpec /\ WF_lvars((\E k \in 1..70 : Deliver(k)) \/ LEof)

\* ---- properties of the abstract system (C06 / C07 / C08 / C13 / C14, lenient clauses)
ScheduleIndependent == (out # NoOut /\ lastT \notin {"Fail", "Eof"}) => out = OneShot(stream)
EofMeansUndecided   == lastT = "Eof" => out = EofErr /\ pos = Len(stream) /\ OneShot(stream) = EofErr
FailKeepsKind       == lastT = "Fail" => out.st = "err" /\ out.e = "IoError" /\ out.a[1] \in Kinds
PendingOnlyIfTransportDid == ret = "pending" => lastT = "Pending"
ConsumedIsUsed      == (out # NoOut /\ out.st = "ok") => pos = out.used
NeverPastDecision   == pos <= Decision(stream) /\ pos <= Len(stream)
StopsAtDecision     == (out # NoOut /\ lastT = "Data") => pos = Decision(stream)
Finishes            == <>(out # NoOut)

\* ---- lemmas about the grammar that the abstraction rests on (checked per stream of the model)
\* once decided, longer prefixes do not change the answer (includes "trailing bytes are ignored")
DecisionStable(s) == LET n == Decision(s) IN
                     n <= Len(s) => \A m \in n..Len(s) : LenientParse(Fam, Pre(s, m)) = LenientParse(Fam, Pre(s, n))
\* an accepted packet ends exactly at its decision point
OkEndsAtDecision(s) == LET r == LenientParse(Fam, s) IN r.st = "ok" => r.used = Decision(s)
\* the strict decoder on a complete frame and the lenient one agree wherever C06 says they must
StrictVsLenient(s) ==
    StartsWithCompleteFrame(Fam, s) =>
        LET a == StrictParse(Fam, s)
            q == OneShot(s)
        IN  /\ (a.st = "ok" => q.st = "ok" /\ q.v = a.v)
            /\ (a.st = "err" /\ a.e # "InvalidRemainingLength" => q = a)
Lemmas == DecisionStable(stream) /\ OkEndsAtDecision(stream) /\ StrictVsLenient(stream)
=============================================================================
